// Fakes and the schedule runner for C14: a harness-controlled block counter and broadcast
// channel, recording toy states, and the linearised event log.  Every event is appended under
// one mutex atomically with its effect, so the log is a real-time order of what happened.
package main

import (
	"context"
	"errors"
	"fmt"
	"sync"
	"time"

	"github.com/ipfs/go-log/v2"
	"github.com/keep-network/keep-core/pkg/net"
	"github.com/keep-network/keep-core/pkg/operator"
	"github.com/keep-network/keep-core/pkg/protocol/group"
	"github.com/keep-network/keep-core/pkg/protocol/state"
)

var errToyInit = errors.New("toy initiate failure")
var errToyNext = errors.New("toy next failure")

type evKind int

const (
	kNone evKind = iota
	kEBlock
	kEMsg
	kMWait
	kMInit
	kMWaiter
	kMRecv
	kMNext
	kMDone
)

type event struct {
	Kind evKind
	K    int    // state index
	H    uint64 // height / target / message id
	Acc  bool
	Out  string // outcome, rendered (MDone)
}

func (e event) Coq() string {
	switch e.Kind {
	case kEBlock:
		return fmt.Sprintf("EBlock %d", e.H)
	case kEMsg:
		return fmt.Sprintf("EMsg %d %v", e.H, e.Acc)
	case kMWait:
		return fmt.Sprintf("MWait %d", e.H)
	case kMInit:
		return fmt.Sprintf("MInit %d%%nat %d", e.K, e.H)
	case kMWaiter:
		return fmt.Sprintf("MWaiter %d", e.H)
	case kMRecv:
		return fmt.Sprintf("MRecv %d%%nat %d", e.K, e.H)
	case kMNext:
		return fmt.Sprintf("MNext %d%%nat", e.K)
	case kMDone:
		return "MDone (" + e.Out + ")"
	}
	return "?"
}

type stateSpec struct {
	Delay    uint64 `json:"delay"`
	Active   uint64 `json:"active"`
	InitErr  bool   `json:"initErr,omitempty"`
	NextErr  bool   `json:"nextErr,omitempty"`
	GateInit bool   `json:"gateInit,omitempty"`
	GateNext bool   `json:"gateNext,omitempty"`
}

type waiterRec struct {
	target uint64
	ch     chan uint64
}

type handlerRec struct {
	ctx context.Context
	fn  func(net.Message)
}

type world struct {
	mu   sync.Mutex
	cond *sync.Cond

	prog []stateSpec
	log  []event

	height   uint64
	waiters  []waiterRec
	handlers []handlerRec

	lastMachine evKind
	lastTarget  uint64 // argument of the last MWait / MWaiter
	waiterTgt   uint64
	enq, recv   int
	inGate      bool
	gate        chan struct{}
	done        bool
	outcome     string // final | errinit | errnext | panic | running
	panicText   string
	bufferedSel int // MNext logged while accepted messages were still unreceived
	dropped     int
	teardown    chan struct{}

	machine *state.SyncMachine // the ONE machine of this world; Execute may be called on it again
}

func newWorld(prog []stateSpec, h0 uint64) *world {
	w := &world{prog: prog, height: h0, outcome: "running", teardown: make(chan struct{})}
	w.cond = sync.NewCond(&w.mu)
	return w
}

// append must be called with mu held.
func (w *world) append(e event) {
	w.log = append(w.log, e)
	switch e.Kind {
	case kMWait, kMInit, kMWaiter, kMRecv, kMNext, kMDone:
		w.lastMachine = e.Kind
	}
	w.cond.Broadcast()
}

// ---------------------------------------------------------------- fake block counter

type fakeCounter struct{ w *world }

func (c *fakeCounter) WaitForBlockHeight(t uint64) error {
	w := c.w
	w.mu.Lock()
	w.lastTarget = t
	w.append(event{Kind: kMWait, H: t})
	if t <= w.height {
		w.mu.Unlock()
		return nil
	}
	ch := make(chan uint64, 1)
	w.waiters = append(w.waiters, waiterRec{t, ch})
	w.mu.Unlock()
	select {
	case <-ch:
	case <-w.teardown:
	}
	return nil
}

func (c *fakeCounter) BlockHeightWaiter(t uint64) (<-chan uint64, error) {
	w := c.w
	w.mu.Lock()
	defer w.mu.Unlock()
	w.lastTarget = t
	w.waiterTgt = t
	w.append(event{Kind: kMWaiter, H: t})
	ch := make(chan uint64, 1)
	if t <= w.height {
		ch <- t // the contract: the waiter yields the requested height
	} else {
		w.waiters = append(w.waiters, waiterRec{t, ch})
	}
	return ch, nil
}

func (c *fakeCounter) CurrentBlock() (uint64, error) {
	c.w.mu.Lock()
	defer c.w.mu.Unlock()
	return c.w.height, nil
}

func (c *fakeCounter) WatchBlocks(ctx context.Context) <-chan uint64 {
	return make(chan uint64)
}

// block is the environment action "the chain reaches height h".
func (w *world) block(h uint64) {
	w.mu.Lock()
	defer w.mu.Unlock()
	if h > w.height {
		w.height = h
	}
	w.append(event{Kind: kEBlock, H: h})
	keep := w.waiters[:0]
	for _, r := range w.waiters {
		if r.target <= w.height {
			r.ch <- r.target
		} else {
			keep = append(keep, r)
		}
	}
	w.waiters = keep
}

// ---------------------------------------------------------------- fake broadcast channel

type toyMessage struct{ id uint64 }

type toyTransportID struct{}

func (toyTransportID) String() string { return "toy" }

func (m *toyMessage) TransportSenderID() net.TransportIdentifier { return toyTransportID{} }
func (m *toyMessage) SenderPublicKey() []byte                    { return []byte{1} }
func (m *toyMessage) Payload() interface{}                       { return m.id }
func (m *toyMessage) Type() string                               { return "toy" }
func (m *toyMessage) Seqno() uint64                              { return m.id }

type fakeChannel struct{ w *world }

func (c *fakeChannel) Name() string { return "c14" }
func (c *fakeChannel) Send(ctx context.Context, m net.TaggedMarshaler, s ...net.RetransmissionStrategy) error {
	return nil
}
func (c *fakeChannel) Recv(ctx context.Context, handler func(m net.Message)) {
	c.w.mu.Lock()
	defer c.w.mu.Unlock()
	c.w.handlers = append(c.w.handlers, handlerRec{ctx, handler})
}
func (c *fakeChannel) SetUnmarshaler(unmarshaler func() net.TaggedUnmarshaler) {}
func (c *fakeChannel) SetFilter(filter net.BroadcastChannelFilter) error      { return nil }

var _ = operator.PublicKey{}

// msg is the environment action "the channel delivers message id".
func (w *world) msg(id uint64) {
	w.mu.Lock()
	defer w.mu.Unlock()
	acc := false
	keep := w.handlers[:0]
	for _, h := range w.handlers {
		if h.ctx.Err() == nil {
			h.fn(&toyMessage{id})
			if acc { // a second live handler: the same message is taken twice
				w.enq++
			}
			acc = true
			keep = append(keep, h)
		}
	}
	w.handlers = keep
	if acc {
		w.enq++
	} else {
		w.dropped++
	}
	w.append(event{Kind: kEMsg, H: id, Acc: acc})
}

// ---------------------------------------------------------------- toy states

type toyState struct {
	w *world
	k int
}

func (s *toyState) DelayBlocks() uint64           { return s.w.prog[s.k].Delay }
func (s *toyState) ActiveBlocks() uint64          { return s.w.prog[s.k].Active }
func (s *toyState) MemberIndex() group.MemberIndex { return 1 }

func (s *toyState) hold() {
	// mu held on entry; returns with mu released after the gate opened
	w := s.w
	w.inGate = true
	g := make(chan struct{})
	w.gate = g
	w.cond.Broadcast()
	w.mu.Unlock()
	select {
	case <-g:
	case <-w.teardown:
	}
}

func (s *toyState) Initiate(ctx context.Context) error {
	w := s.w
	w.mu.Lock()
	w.append(event{Kind: kMInit, K: s.k, H: w.height})
	if w.prog[s.k].GateInit {
		s.hold()
	} else {
		w.mu.Unlock()
	}
	if w.prog[s.k].InitErr {
		return errToyInit
	}
	return nil
}

func (s *toyState) Receive(m net.Message) error {
	w := s.w
	w.mu.Lock()
	defer w.mu.Unlock()
	w.recv++
	w.append(event{Kind: kMRecv, K: s.k, H: m.Seqno()})
	return nil
}

func (s *toyState) Next() (state.SyncState, error) {
	w := s.w
	w.mu.Lock()
	if w.enq > w.recv {
		w.bufferedSel++
	}
	w.append(event{Kind: kMNext, K: s.k})
	if w.prog[s.k].GateNext {
		s.hold()
	} else {
		w.mu.Unlock()
	}
	if w.prog[s.k].NextErr {
		return nil, errToyNext
	}
	if s.k+1 >= len(w.prog) {
		return nil, nil
	}
	return &toyState{w, s.k + 1}, nil
}

// release opens the gate the toy state is held in; false when nothing is held.
func (w *world) release() bool {
	w.mu.Lock()
	defer w.mu.Unlock()
	if !w.inGate {
		return false
	}
	w.inGate = false
	close(w.gate)
	w.gate = nil
	return true
}

// ---------------------------------------------------------------- running the real machine

func (w *world) start(logger log.StandardLogger, startBlock uint64) {
	w.newMachine(logger)
	w.exec(startBlock)
}

// newMachine builds the world's SyncMachine, once, with the production constructor.
func (w *world) newMachine(logger log.StandardLogger) {
	w.machine = state.NewSyncMachine(logger, &fakeChannel{w}, &fakeCounter{w}, &toyState{w, 0})
}

// beginRun prepares the observation of a further Execute call on the SAME machine: the chain,
// the channel's handler list and the machine stay; the log and the quiescence bookkeeping of
// the previous call are dropped and the toy states behave as prog from now on. Returns the
// chain height at the call.
func (w *world) beginRun(prog []stateSpec) uint64 {
	w.mu.Lock()
	defer w.mu.Unlock()
	w.prog = prog
	w.log = nil
	w.lastMachine, w.lastTarget, w.waiterTgt = kNone, 0, 0
	w.enq, w.recv = 0, 0
	w.inGate, w.gate = false, nil
	w.done, w.outcome, w.panicText = false, "running", ""
	w.bufferedSel, w.dropped = 0, 0
	return w.height
}

// exec calls Execute on the world's machine in its own goroutine.
func (w *world) exec(startBlock uint64) {
	machine := w.machine
	go func() {
		var last state.SyncState
		var end uint64
		var err error
		panicked := ""
		func() {
			defer func() {
				if r := recover(); r != nil {
					panicked = fmt.Sprintf("panic: %v", r)
				}
			}()
			last, end, err = machine.Execute(startBlock)
		}()
		w.mu.Lock()
		defer w.mu.Unlock()
		lastK := func(kind evKind) int {
			for i := len(w.log) - 1; i >= 0; i-- {
				if w.log[i].Kind == kind {
					return w.log[i].K
				}
			}
			return 9999
		}
		out := ""
		switch {
		case panicked != "":
			w.outcome, w.panicText, out = "panic", panicked, "ErrNext 9999%nat"
		case err == nil:
			ts, ok := last.(*toyState)
			if !ok {
				w.outcome, w.panicText, out = "panic", "Execute returned a foreign state", "ErrNext 9999%nat"
			} else {
				w.outcome, out = "final", fmt.Sprintf("Final %d%%nat %d", ts.k, end)
			}
		case errors.Is(err, errToyInit):
			w.outcome, out = "errinit", fmt.Sprintf("ErrInit %d%%nat", lastK(kMInit))
		case errors.Is(err, errToyNext):
			w.outcome, out = "errnext", fmt.Sprintf("ErrNext %d%%nat", lastK(kMNext))
		default:
			w.outcome, w.panicText, out = "panic", "unexpected error: "+err.Error(), "ErrNext 9999%nat"
		}
		w.done = true
		w.append(event{Kind: kMDone, Out: out})
	}()
}

// quiescent must be called with mu held: the machine is blocked until the environment acts.
func (w *world) quiescent() bool {
	if w.done || w.inGate {
		return true
	}
	switch w.lastMachine {
	case kMWait:
		return w.lastTarget > w.height
	case kMWaiter, kMRecv:
		// recv > enq can only happen when the machine hands over messages that were not
		// accepted during this Execute call; that must not look like "still busy"
		return w.recv >= w.enq && w.waiterTgt > w.height
	}
	return false
}

// settle waits (on the condition, never by sleeping) until the machine is blocked.
func (w *world) settle(budget time.Duration) bool {
	deadline := time.Now().Add(budget)
	timer := time.AfterFunc(budget, func() {
		w.mu.Lock()
		w.cond.Broadcast()
		w.mu.Unlock()
	})
	defer timer.Stop()
	w.mu.Lock()
	defer w.mu.Unlock()
	for !w.quiescent() {
		if !time.Now().Before(deadline) {
			return false
		}
		w.cond.Wait()
	}
	return true
}

// stop lets every goroutine of an abandoned or finished schedule end.
func (w *world) stop() {
	w.mu.Lock()
	defer w.mu.Unlock()
	select {
	case <-w.teardown:
	default:
		close(w.teardown)
	}
}
