// Driver for C14: runs the REAL state.SyncMachine with recording toy states, a harness-controlled
// block counter and broadcast channel, forces schedules of block arrivals / message deliveries /
// slow Initiate and Next calls, and prints the linearised event log of each schedule as a case
// for the Coq model (Model/C14.v), which replays the log and evaluates the property on it.
// Also walks the real gjkr and dkg/result state chains for the duration sums.
package main

import (
	"fmt"
	"math"
	"math/big"
	"os"
	"strings"
	"sync"
	"time"

	"github.com/ipfs/go-log/v2"
	"github.com/keep-network/keep-core/pkg/beacon/dkg/result"
	"github.com/keep-network/keep-core/pkg/beacon/gjkr"
	"github.com/keep-network/keep-core/pkg/protocol/group"
	"github.com/keep-network/keep-core/pkg/protocol/state"

	"verifharness/lib"
)

type step struct {
	Op string `json:"op"` // block | msg | release | adv (the chain advances by H blocks, default 1)
	H  uint64 `json:"h,omitempty"`
	Id uint64 `json:"id,omitempty"`
}

type input struct {
	Kind   string      `json:"kind"`  // trace | dur
	Proto  string      `json:"proto"` // "", gjkr, result
	Prog   []stateSpec `json:"prog"`
	Start  uint64      `json:"start"`
	H0     uint64      `json:"h0"`
	Total  *uint64     `json:"total,omitempty"`
	Steps  []step      `json:"steps"`
	Finish bool        `json:"finish"`
	// kind "hist": the SAME SyncMachine executed once per entry, each call run to its return
	Runs []runSpec `json:"runs,omitempty"`
}

type runSpec struct {
	Prog     []stateSpec `json:"prog"`
	StartRel int64       `json:"startRel"`        // start block = chain height at the Execute call + StartRel
	Steps    []step      `json:"steps"`           // forced while Execute runs
	After    []step      `json:"after,omitempty"` // environment events after Execute returned, before the next call
}

type runResult struct {
	ok      bool // false: inconclusive
	w       *world
	settled bool
}

var logger = log.Logger("c14-harness")

// runSchedule executes one schedule against the real machine.
func runSchedule(in input, budget time.Duration) runResult {
	w := newWorld(in.Prog, in.H0)
	defer w.stop()
	w.start(logger, in.Start)
	if !w.settle(budget) {
		return runResult{ok: false, w: w}
	}
	for _, s := range in.Steps {
		switch s.Op {
		case "block":
			w.block(s.H)
		case "msg":
			w.msg(s.Id)
		case "release":
			if !w.release() {
				continue
			}
		}
		if !w.settle(budget) {
			return runResult{ok: false, w: w}
		}
	}
	if in.Finish {
		if settled, _ := finish(w, in.Prog, in.Start, in.H0, budget); !settled {
			return runResult{ok: false, w: w}
		}
	}
	return runResult{ok: true, w: w, settled: true}
}

// apply performs one scripted environment action; false when it was a no-op.
func apply(w *world, s step) bool {
	switch s.Op {
	case "block":
		w.block(s.H)
	case "adv":
		inc := s.H
		if inc == 0 {
			inc = 1
		}
		w.mu.Lock()
		h := w.height
		w.mu.Unlock()
		if h > math.MaxUint64-inc {
			return false
		}
		w.block(h + inc)
	case "msg":
		w.msg(s.Id)
	case "release":
		return w.release()
	}
	return true
}

// finish releases gates and feeds blocks one by one until Execute has returned (done) or the
// block limit is reached; settled is false when the machine did not reach quiescence in time.
func finish(w *world, prog []stateSpec, start, h0 uint64, budget time.Duration) (settled, done bool) {
	var sum uint64
	for _, s := range prog {
		sum += s.Delay + s.Active
	}
	gap := start - h0
	if h0 > start {
		gap = 0
	}
	limit := sum + gap + 50
	if limit > 5000 {
		limit = 5000
	}
	isDone := func() bool {
		w.mu.Lock()
		defer w.mu.Unlock()
		return w.done
	}
	for i := uint64(0); i < limit && !isDone(); i++ {
		if !w.release() {
			if !apply(w, step{Op: "adv", H: 1}) {
				break
			}
		}
		if !w.settle(budget) {
			return false, false
		}
	}
	return true, isDone()
}

type runObs struct {
	prog     []stateSpec
	start    uint64
	h0       uint64
	log      []event
	outcome  string
	panicTxt string
	leftover int // messages accepted during this Execute and never handed to a state
	inits    int
	recvs    int
}

// runHistory executes the runs of a history one after the other on ONE SyncMachine.
func runHistory(in input, budget time.Duration) (obs []runObs, ok bool) {
	if len(in.Runs) == 0 {
		return nil, false
	}
	w := newWorld(in.Runs[0].Prog, in.H0)
	defer w.stop()
	w.newMachine(logger)
	for _, r := range in.Runs {
		h0 := w.beginRun(r.Prog)
		start := uint64(int64(h0) + r.StartRel)
		if r.StartRel < 0 && uint64(-r.StartRel) > h0 {
			start = 0
		}
		w.exec(start)
		if !w.settle(budget) {
			return nil, false
		}
		for _, s := range r.Steps {
			if !apply(w, s) {
				continue
			}
			if !w.settle(budget) {
				return nil, false
			}
		}
		if settled, done := finish(w, r.Prog, start, h0, budget); !settled || !done {
			return nil, false
		}
		w.mu.Lock()
		o := runObs{prog: r.Prog, start: start, h0: h0, outcome: w.outcome, panicTxt: w.panicText, leftover: w.enq - w.recv}
		w.mu.Unlock()
		for _, s := range r.After {
			if s.Op == "release" {
				continue
			}
			apply(w, s)
		}
		w.mu.Lock()
		o.log = append([]event{}, w.log...)
		w.mu.Unlock()
		for _, e := range o.log {
			if e.Kind == kMInit {
				o.inits++
			}
			if e.Kind == kMRecv {
				o.recvs++
			}
		}
		obs = append(obs, o)
	}
	return obs, true
}

func runHist(in input, id string) emitted {
	obs, ok := runHistory(in, 2*time.Second)
	if !ok {
		obs, ok = runHistory(in, 8*time.Second)
	}
	if !ok {
		return emitted{skipped: true, tallies: []string{"inconclusive-skipped"}}
	}
	terms := make([]string, len(obs))
	var keys []string
	var outs []map[string]interface{}
	t := []string{fmt.Sprintf("hist-executions-%d", len(obs))}
	leftoverBefore, nontrivial := false, false
	outcomes := ""
	for i, o := range obs {
		evs := make([]string, len(o.log))
		for j, e := range o.log {
			evs[j] = e.Coq()
		}
		terms[i] = fmt.Sprintf("{| c_prog := %s; c_start := %d; c_h0 := %d; c_total := None; c_eager := true; c_settled := true; c_events := %s |}",
			renderProg(o.prog), o.start, o.h0, lib.List(evs))
		keys = append(keys, fmt.Sprintf("%s|%d|%d|%s", renderProg(o.prog), o.start, o.h0, strings.Join(evs, ";")))
		out := map[string]interface{}{"log": evs, "outcome": o.outcome, "leftInBuffer": o.leftover}
		if o.panicTxt != "" {
			out["error"] = o.panicTxt
		}
		outs = append(outs, out)
		if leftoverBefore && o.inits >= 1 {
			nontrivial = true
		}
		if o.leftover > 0 {
			leftoverBefore = true
		}
		if i > 0 {
			outcomes += ","
		}
		outcomes += o.outcome
		t = append(t, "hist-outcome-"+o.outcome)
	}
	if nontrivial {
		t = append(t, "hist-buffer-not-empty-at-return-then-re-executed")
	}
	return emitted{
		c: lib.Case{
			ID:         id,
			Coq:        "(CHist " + lib.List(terms) + ")",
			Key:        "hist|" + strings.Join(keys, "||"),
			Nontrivial: nontrivial,
			Sig:        map[string]interface{}{"kind": "hist", "outcomes": outcomes},
			In:         in,
			Out:        outs,
		},
		tallies: t,
	}
}

func renderProg(p []stateSpec) string {
	items := make([]string, len(p))
	for i, s := range p {
		items[i] = fmt.Sprintf("{| delay := %d; active := %d; init_err := %v; next_err := %v |}",
			s.Delay, s.Active, s.InitErr, s.NextErr)
	}
	return lib.List(items)
}

type emitted struct {
	c       lib.Case
	tallies []string
	skipped bool
}

func runTrace(in input, id string) emitted {
	r := runSchedule(in, 2*time.Second)
	if !r.ok {
		r = runSchedule(in, 8*time.Second)
	}
	if !r.ok {
		return emitted{skipped: true, tallies: []string{"inconclusive-skipped"}}
	}
	w := r.w
	w.mu.Lock()
	defer w.mu.Unlock()
	evs := make([]string, len(w.log))
	nInit, nRecv := 0, 0
	for i, e := range w.log {
		evs[i] = e.Coq()
		if e.Kind == kMInit {
			nInit++
		}
		if e.Kind == kMRecv {
			nRecv++
		}
	}
	total := "None"
	if in.Total != nil {
		total = fmt.Sprintf("(Some %d)", *in.Total)
	}
	coq := fmt.Sprintf("(CTrace {| c_prog := %s; c_start := %d; c_h0 := %d; c_total := %s; c_eager := true; c_settled := %v; c_events := %s |})",
		renderProg(in.Prog), in.Start, in.H0, total, r.settled, lib.List(evs))
	t := []string{
		fmt.Sprintf("states-%02d", len(in.Prog)),
		"outcome-" + w.outcome,
	}
	if w.bufferedSel > 0 {
		t = append(t, "select-with-buffered-messages")
	}
	if w.dropped > 0 {
		t = append(t, "message-without-live-handler")
	}
	for _, s := range in.Prog {
		if s.Delay == 0 && s.Active == 0 {
			t = append(t, "has-silent-state")
			break
		}
	}
	for _, s := range in.Prog {
		if s.GateInit {
			t = append(t, "has-gated-initiate")
			break
		}
	}
	out := map[string]interface{}{"log": evs, "outcome": w.outcome}
	if w.panicText != "" {
		out["error"] = w.panicText
	}
	return emitted{
		c: lib.Case{
			ID:         id,
			Coq:        coq,
			Key:        fmt.Sprintf("%s|%d|%d|%s", renderProg(in.Prog), in.Start, in.H0, strings.Join(evs, ";")),
			Nontrivial: nInit >= 2 && nRecv >= 1,
			Sig:        map[string]interface{}{"kind": "trace", "proto": in.Proto, "outcome": w.outcome},
			In:         in,
			Out:        out,
		},
		tallies: t,
	}
}

// ---------------------------------------------------------------- the real state chains

func walk(s state.SyncState) (list []stateSpec, err error) {
	defer func() {
		if r := recover(); r != nil {
			err = fmt.Errorf("panic while walking the state chain: %v", r)
		}
	}()
	for s != nil && len(list) < 64 {
		list = append(list, stateSpec{Delay: s.DelayBlocks(), Active: s.ActiveBlocks()})
		s, err = s.Next()
		if err != nil {
			return
		}
	}
	return
}

func realChain(proto string) ([]stateSpec, uint64, error) {
	w := newWorld(nil, 0)
	ch := &fakeChannel{w}
	switch proto {
	case "gjkr":
		m, err := gjkr.NewMember(logger, 1, 3, 1, nil, big.NewInt(1), "s")
		if err != nil {
			return nil, 0, err
		}
		l, err := walk(gjkr.VerifC14InitialState(ch, m))
		return l, gjkr.ProtocolBlocks(), err
	case "result":
		m := result.NewSigningMember(logger, 1, group.NewGroup(1, 3), nil, "s")
		l, err := walk(result.VerifC14InitialState(ch, nil, &fakeCounter{w}, m, 10))
		return l, result.PrePublicationBlocks(), err
	}
	return nil, 0, fmt.Errorf("unknown protocol %q", proto)
}

func runDur(in input, id string) emitted {
	l, total, err := realChain(in.Proto)
	proto := 0
	if in.Proto == "result" {
		proto = 1
	}
	items := make([]string, len(l))
	for i, s := range l {
		items[i] = fmt.Sprintf("(%d, %d)", s.Delay, s.Active)
	}
	out := map[string]interface{}{"states": l, "total": total}
	if err != nil {
		out["error"] = err.Error()
		items = append(items, "(18446744073709551615, 18446744073709551615)") // never equal to the model's list
	}
	return emitted{c: lib.Case{
		ID:         id,
		Coq:        fmt.Sprintf("(CDur %d %s %d)", proto, lib.List(items), total),
		Key:        "dur|" + in.Proto,
		Nontrivial: true,
		Sig:        map[string]interface{}{"kind": "dur", "proto": in.Proto},
		In:         in,
		Out:        out,
	}, tallies: []string{"dur-" + in.Proto}}
}

func run(in input, id string) emitted {
	if in.Kind == "dur" {
		return runDur(in, id)
	}
	if in.Kind == "hist" {
		return runHist(in, id)
	}
	return runTrace(in, id)
}

// ---------------------------------------------------------------- generators

func unit(from uint64, n int) []step {
	var s []step
	for i := 1; i <= n; i++ {
		s = append(s, step{Op: "block", H: from + uint64(i)})
	}
	return s
}

func corpus() []input {
	var out []input
	S := func(d, a uint64) stateSpec { return stateSpec{Delay: d, Active: a} }
	// (a) three states, unit blocks, one message per block
	{
		var st []step
		for i := uint64(1); i <= 14; i++ {
			st = append(st, step{Op: "block", H: 100 + i}, step{Op: "msg", Id: i})
		}
		out = append(out, input{Kind: "trace", Prog: []stateSpec{S(1, 5), S(0, 0), S(1, 3)}, Start: 102, H0: 100, Steps: st, Finish: true})
	}
	// (b) messages buffered across a transition: Initiate of state 0 held while its end block passes
	{
		p := []stateSpec{{Delay: 1, Active: 2, GateInit: true}, S(1, 2), S(0, 1)}
		st := []step{{Op: "block", H: 11}, {Op: "msg", Id: 1}, {Op: "msg", Id: 2}, {Op: "msg", Id: 3},
			{Op: "block", H: 12}, {Op: "block", H: 13}, {Op: "block", H: 14}, {Op: "msg", Id: 4}, {Op: "release"}}
		out = append(out, input{Kind: "trace", Prog: p, Start: 10, H0: 10, Steps: st, Finish: true})
	}
	// (c) slow Initiate overrunning the two following states
	{
		p := []stateSpec{{Delay: 0, Active: 1, GateInit: true}, S(1, 1), S(0, 2), S(1, 1)}
		st := append(unit(5, 7), step{Op: "msg", Id: 1}, step{Op: "release"}, step{Op: "msg", Id: 2})
		out = append(out, input{Kind: "trace", Prog: p, Start: 5, H0: 5, Steps: st, Finish: true})
	}
	// (d) start block in the past
	out = append(out, input{Kind: "trace", Prog: []stateSpec{S(1, 2), S(1, 1)}, Start: 20, H0: 24,
		Steps: []step{{Op: "msg", Id: 1}}, Finish: true})
	// (e) a message delivered while the machine is inside Next(): no live handler
	{
		p := []stateSpec{{Delay: 0, Active: 1, GateNext: true}, S(0, 1)}
		st := []step{{Op: "msg", Id: 1}, {Op: "block", H: 8}, {Op: "msg", Id: 2}, {Op: "release"}, {Op: "msg", Id: 3}}
		out = append(out, input{Kind: "trace", Prog: p, Start: 7, H0: 7, Steps: st, Finish: true})
	}
	// (f) Initiate fails, (g) Next fails
	out = append(out, input{Kind: "trace", Prog: []stateSpec{S(1, 1), {Delay: 1, Active: 1, InitErr: true}, S(1, 1)}, Start: 3, H0: 1, Finish: true})
	out = append(out, input{Kind: "trace", Prog: []stateSpec{S(1, 1), {Delay: 1, Active: 1, NextErr: true}, S(1, 1)}, Start: 3, H0: 1,
		Steps: []step{{Op: "msg", Id: 1}}, Finish: true})
	// (h) uint64 wrap of the targets
	out = append(out, input{Kind: "trace", Prog: []stateSpec{S(1, 2), S(3, 4)}, Start: math.MaxUint64 - 2, H0: math.MaxUint64 - 4,
		Steps: []step{{Op: "msg", Id: 1}}, Finish: true})
	// (i) silent states only, (j) a single silent state
	out = append(out, input{Kind: "trace", Prog: []stateSpec{S(0, 0), S(0, 0), S(0, 0), S(0, 0)}, Start: 9, H0: 7,
		Steps: []step{{Op: "msg", Id: 1}, {Op: "msg", Id: 2}}, Finish: true})
	out = append(out, input{Kind: "trace", Prog: []stateSpec{S(0, 0)}, Start: 1, H0: 0, Finish: true})
	// block jumps over several targets at once
	out = append(out, input{Kind: "trace", Prog: []stateSpec{S(1, 2), S(1, 2), S(1, 2)}, Start: 50, H0: 40,
		Steps: []step{{Op: "msg", Id: 1}, {Op: "block", H: 70}, {Op: "msg", Id: 2}}, Finish: true})
	return out
}

func randomSchedule(r *lib.Rng) input {
	n := r.Range(1, 6)
	prog := make([]stateSpec, n)
	for i := range prog {
		if !r.Chance(3, 10) {
			prog[i].Delay = uint64(r.Intn(4))
			prog[i].Active = uint64(r.Intn(7))
		}
		prog[i].GateInit = r.Chance(1, 4)
		prog[i].GateNext = r.Chance(1, 10)
	}
	if r.Chance(8, 100) {
		prog[r.Intn(n)].InitErr = true
	}
	if r.Chance(8, 100) {
		prog[r.Intn(n)].NextErr = true
	}
	start := uint64(r.Intn(1000000)) + 5
	h0 := start - 3 + uint64(r.Intn(7))
	var st []step
	h := h0
	id := uint64(0)
	for i, m := 0, r.Range(10, 45); i < m; i++ {
		switch x := r.Intn(100); {
		case x < 65:
			h++
			st = append(st, step{Op: "block", H: h})
		case x < 73:
			h += uint64(r.Range(2, 5))
			st = append(st, step{Op: "block", H: h})
		case x < 95:
			id++
			st = append(st, step{Op: "msg", Id: id})
		default:
			st = append(st, step{Op: "release"})
		}
	}
	return input{Kind: "trace", Prog: prog, Start: start, H0: h0, Steps: st, Finish: r.Chance(85, 100)}
}

func realSchedules(r *lib.Rng, proto string, n int) []input {
	l, total, err := realChain(proto)
	if err != nil || len(l) == 0 {
		return nil
	}
	var out []input
	for i := 0; i < n; i++ {
		prog := append([]stateSpec{}, l...)
		start := uint64(r.Intn(100000)) + 10
		h0 := start - uint64(r.Intn(3))
		var st []step
		h := h0
		for j, id := 0, uint64(0); j < 30; j++ {
			if r.Chance(2, 3) {
				h++
				st = append(st, step{Op: "block", H: h})
			} else {
				id++
				st = append(st, step{Op: "msg", Id: id})
			}
		}
		if i%3 == 2 {
			prog[r.Intn(len(prog))].GateInit = true
		}
		t := total
		out = append(out, input{Kind: "trace", Proto: proto, Prog: prog, Start: start, H0: h0, Total: &t, Steps: st, Finish: true})
	}
	return out
}

func smallScope() []input {
	var progs [][]stateSpec
	var rec func(cur []stateSpec)
	rec = func(cur []stateSpec) {
		if len(cur) >= 1 {
			progs = append(progs, append([]stateSpec{}, cur...))
		}
		if len(cur) == 3 {
			return
		}
		for d := uint64(0); d <= 1; d++ {
			for a := uint64(0); a <= 2; a++ {
				rec(append(cur, stateSpec{Delay: d, Active: a}))
			}
		}
	}
	rec(nil)
	var out []input
	for _, p := range progs {
		var sum uint64
		for _, s := range p {
			sum += s.Delay + s.Active
		}
		var st []step
		st = append(st, step{Op: "msg", Id: 1})
		for i := uint64(1); i <= sum+2; i++ {
			st = append(st, step{Op: "block", H: 3 + i}, step{Op: "msg", Id: i + 1})
		}
		out = append(out, input{Kind: "trace", Prog: p, Start: 4, H0: 3, Steps: st, Finish: true})
	}
	return out
}

// ---------------------------------------------------------------- re-execution histories

func histCorpus() []input {
	S := func(d, a uint64) stateSpec { return stateSpec{Delay: d, Active: a} }
	M := func(id uint64) step { return step{Op: "msg", Id: id} }
	A := step{Op: "adv"}
	R := step{Op: "release"}
	var out []input
	// an attempt aborted by a failing Initiate with messages already buffered, then a retry
	out = append(out, input{Kind: "hist", H0: 9, Runs: []runSpec{
		{Prog: []stateSpec{{Delay: 1, Active: 5, InitErr: true, GateInit: true}, S(1, 2)}, StartRel: 1,
			Steps: []step{M(1), A, M(2), A, M(3), R}},
		{Prog: []stateSpec{S(1, 3), S(0, 2)}, StartRel: 2, Steps: []step{A, A, A, M(4), A, M(5), A, A}},
	}})
	// the second state's Initiate fails; messages delivered during its delay are left behind
	out = append(out, input{Kind: "hist", H0: 20, Runs: []runSpec{
		{Prog: []stateSpec{S(0, 1), {Delay: 2, Active: 1, InitErr: true}}, StartRel: 0,
			Steps: []step{M(1), A, M(2), M(3), A, M(4)}, After: []step{M(5), A}},
		{Prog: []stateSpec{S(0, 2), S(1, 1)}, StartRel: 1, Steps: []step{M(6), A, M(7), A, A}},
	}})
	// Next fails while messages are still buffered (Initiate held past the end block)
	out = append(out, input{Kind: "hist", H0: 5, Runs: []runSpec{
		{Prog: []stateSpec{{Delay: 0, Active: 1, GateInit: true, NextErr: true}, S(1, 1)}, StartRel: 0,
			Steps: []step{M(1), M(2), M(3), M(4), A, A, R}},
		{Prog: []stateSpec{S(1, 2)}, StartRel: 0, Steps: []step{A, M(5), A}},
	}})
	// a complete run whose last state was outrun by the chain, then a second run in the past
	out = append(out, input{Kind: "hist", H0: 30, Runs: []runSpec{
		{Prog: []stateSpec{S(0, 1), {Delay: 0, Active: 1, GateInit: true}}, StartRel: 0,
			Steps: []step{A, M(1), M(2), M(3), A, A, R}},
		{Prog: []stateSpec{S(0, 0), S(1, 1)}, StartRel: -2, Steps: []step{M(4), A, M(5)}},
	}})
	// two aborted attempts, then a complete one
	out = append(out, input{Kind: "hist", H0: 100, Runs: []runSpec{
		{Prog: []stateSpec{{Delay: 2, Active: 2, InitErr: true}}, StartRel: 1, Steps: []step{M(1), A, M(2), A}},
		{Prog: []stateSpec{S(1, 1), {Delay: 1, Active: 2, InitErr: true, GateInit: true}}, StartRel: 1,
			Steps: []step{A, A, M(3), A, A, M(4), R}},
		{Prog: []stateSpec{S(1, 2), S(0, 0), S(1, 1)}, StartRel: 3, Steps: []step{A, A, A, A, M(5), A, M(6)}},
	}})
	return out
}

func randomHistory(r *lib.Rng) input {
	nRuns := 2
	if r.Chance(1, 4) {
		nRuns = 3
	}
	id := uint64(0)
	var runs []runSpec
	for j := 0; j < nRuns; j++ {
		n := r.Range(1, 4)
		prog := make([]stateSpec, n)
		for i := range prog {
			if !r.Chance(3, 10) {
				prog[i].Delay = uint64(r.Intn(4))
				prog[i].Active = uint64(r.Intn(5))
			}
			prog[i].GateInit = r.Chance(1, 4)
			prog[i].GateNext = r.Chance(1, 12)
		}
		aborted := j < nRuns-1
		if aborted {
			switch x := r.Intn(100); {
			case x < 70: // a failing Initiate, mostly early, mostly after a delay and held
				k := 0
				if r.Bool() {
					k = r.Intn(n)
				}
				prog[k].InitErr = true
				if prog[k].Delay == 0 && r.Chance(2, 3) {
					prog[k].Delay = uint64(r.Range(1, 3))
				}
				prog[k].GateInit = r.Bool()
			case x < 85:
				k := r.Intn(n)
				prog[k].NextErr = true
				prog[k].GateInit = true
			default: // completes; the last state's Initiate is held so that the select is contended
				prog[n-1].GateInit = true
			}
		} else if r.Chance(1, 10) {
			prog[r.Intn(n)].InitErr = true
		}
		var st []step
		if aborted {
			for k := r.Range(1, 3); k > 0; k-- {
				id++
				st = append(st, step{Op: "msg", Id: id})
			}
		}
		for i, m := 0, r.Range(5, 24); i < m; i++ {
			switch x := r.Intn(100); {
			case x < 50:
				st = append(st, step{Op: "adv"})
			case x < 55:
				st = append(st, step{Op: "adv", H: uint64(r.Range(2, 4))})
			case x < 93:
				id++
				st = append(st, step{Op: "msg", Id: id})
			default:
				st = append(st, step{Op: "release"})
			}
		}
		var after []step
		for k := r.Intn(3); k > 0; k-- {
			if r.Bool() {
				id++
				after = append(after, step{Op: "msg", Id: id})
			} else {
				after = append(after, step{Op: "adv"})
			}
		}
		runs = append(runs, runSpec{Prog: prog, StartRel: int64(r.Intn(6)) - 2, Steps: st, After: after})
	}
	return input{Kind: "hist", H0: uint64(r.Intn(100000)) + 5, Runs: runs}
}

type job struct {
	in input
	id string
}

func main() {
	o := lib.ParseOpts()
	em := lib.NewEmitter()
	log.SetAllLoggers(log.LevelFatal)
	if o.Replay != "" {
		var in input
		if err := lib.LoadReplay(o.Replay, &in); err != nil {
			fmt.Fprintln(os.Stderr, err)
			os.Exit(2)
		}
		e := run(in, "replay")
		if e.skipped {
			fmt.Fprintln(os.Stderr, "replay schedule was inconclusive (did not reach quiescence)")
			os.Exit(2)
		}
		em.Case(e.c)
		em.Close("replay", nil)
		return
	}
	rng := lib.NewRng(o.Seed)
	var jobs []job
	for i, in := range corpus() {
		jobs = append(jobs, job{in, fmt.Sprintf("corpus-%02d", i)})
	}
	jobs = append(jobs, job{input{Kind: "dur", Proto: "gjkr"}, "dur-gjkr"}, job{input{Kind: "dur", Proto: "result"}, "dur-result"})
	for _, proto := range []string{"gjkr", "result"} {
		for i, in := range realSchedules(rng.Fork("real-"+proto), proto, o.Count(3, 30)) {
			jobs = append(jobs, job{in, fmt.Sprintf("real-%s-%02d", proto, i)})
		}
	}
	small := smallScope()
	nSmall := o.Count(60, len(small))
	perm := rng.Fork("small").Perm(len(small))
	for i := 0; i < nSmall && i < len(small); i++ {
		jobs = append(jobs, job{small[perm[i]], fmt.Sprintf("small-%03d", perm[i])})
	}
	nRand := o.Count(220, 3000)
	for i := 0; i < nRand; i++ {
		jobs = append(jobs, job{randomSchedule(rng.Fork(fmt.Sprintf("rand%d", i))), fmt.Sprintf("rand-%04d", i)})
	}

	for i, in := range histCorpus() {
		jobs = append(jobs, job{in, fmt.Sprintf("hist-corpus-%02d", i)})
	}
	nHist := o.Count(120, 1500)
	for i := 0; i < nHist; i++ {
		jobs = append(jobs, job{randomHistory(rng.Fork(fmt.Sprintf("hist%d", i))), fmt.Sprintf("hist-%04d", i)})
	}

	results := make([]emitted, len(jobs))
	var wg sync.WaitGroup
	sem := make(chan struct{}, 8)
	for i := range jobs {
		wg.Add(1)
		sem <- struct{}{}
		go func(i int) {
			defer wg.Done()
			defer func() { <-sem }()
			results[i] = run(jobs[i].in, jobs[i].id)
		}(i)
	}
	wg.Wait()
	skipped := 0
	for _, e := range results {
		for _, t := range e.tallies {
			em.Tally(t)
		}
		if e.skipped {
			skipped++
			continue
		}
		em.Case(e.c)
	}
	em.Close("a case is the linearised event log of one forced schedule of the real SyncMachine "+
		"(or the walked real state chain of gjkr / dkg result), or the logs of successive Execute calls on ONE SyncMachine "+
		"(a re-execution history); distinct by (program, start, initial height, log); "+
		"non-trivial when at least two states were initiated and at least one message was handed to a state; a history "+
		"when an Execute returned with accepted messages not handed over and a later Execute initiated a state",
		map[string]interface{}{"skipped": skipped})
}
