package gjkrdrv

import (
	"fmt"
	"math/big"
)

func attackKey(a Attack) string { return fmt.Sprintf("%s/%d/%d/%d/%d", a.Name, a.Phase, a.By, a.Target, a.K) }

// AttackNames lists every scripted deviation with the phase whose messages it rewrites
// (0 = any sending phase).
var AttackNames = []struct {
	Name   string
	Phases []int
}{
	{"silent-from", []int{1, 3, 4, 7, 8, 10}}, // crash: nothing is published from this phase on
	{"drop", []int{1, 3, 4, 7, 8, 10}},        // this phase's messages are withheld
	{"wrong-session", []int{1, 3, 4, 7, 8, 10}},
	{"dup", []int{1, 3, 4, 7, 8, 10}},           // every message twice
	{"foreign-index", []int{1, 3, 4, 7, 8, 10}}, // a copy claiming another member's index
	{"eph-omit", []int{1}},
	{"eph-self", []int{1}},
	{"eph-copy", []int{1}},
	{"drop-shares", []int{3}},
	{"drop-commits", []int{3}},
	{"sh-omit", []int{3}},
	{"sh-garbage", []int{3}},
	{"sh-wrong-value", []int{3}},
	{"sh-wrong-key", []int{3}},
	{"cm-short", []int{3}},
	{"cm-long", []int{3}},
	{"cm-mutate", []int{3}},
	{"acc-false", []int{4, 8}},
	{"acc-bad-key", []int{4, 8}},
	{"acc-self", []int{4, 8}},
	{"acc-range", []int{4, 8}},
	{"acc-none", []int{4, 8}},
	{"acc-quiet", []int{4, 8}}, // the (justified) accusation against Target is withheld: an accomplice keeps quiet
	{"pts-short", []int{7}},
	{"pts-long", []int{7}},
	{"pts-mutate", []int{7}},
	{"points-poly-offset", []int{7}},
	{"pts-conflict", []int{7}},
	{"rev-omit", []int{10}},
	{"rev-extra", []int{10}},
	{"rev-bad-key", []int{10}},
	{"rev-self", []int{10}},
	{"rev-range", []int{10}},
	{"rev-none", []int{10}},
	{"rev-wrong-for", []int{10}}, // a key that is NOT the one published in phase 1 is revealed for Target
}

// offsetPoly returns the coefficients (lowest first, length t+1) of val * prod_{i in set} (x - i).
func offsetPoly(val int64, set []int, t int) []*big.Int {
	p := []*big.Int{big.NewInt(val)}
	for _, i := range set {
		np := make([]*big.Int, len(p)+1)
		for k := range np {
			np[k] = big.NewInt(0)
		}
		for k, c := range p {
			np[k+1] = mod(new(big.Int).Add(np[k+1], c))
			np[k] = mod(new(big.Int).Sub(np[k], new(big.Int).Mul(c, big.NewInt(int64(i)))))
		}
		p = np
	}
	for len(p) < t+1 {
		p = append(p, big.NewInt(0))
	}
	return p[:t+1]
}

func addPoly(a []*big.Int, b []*big.Int) []*big.Int {
	out := make([]*big.Int, len(a))
	for i := range a {
		out[i] = new(big.Int).Set(a[i])
		if i < len(b) {
			out[i] = mod(new(big.Int).Add(out[i], b[i]))
		}
	}
	return out
}

// applyAttacks rewrites what the corrupt seats publish in this phase. base holds, per corrupt
// seat, the (symbolic form of the) messages its real gjkr object produced.
func (r *runner) applyAttacks(phase int, base map[int][]SymMsg) []SymMsg {
	var out []SymMsg
	for _, c := range r.d.Corrupt {
		msgs := base[c]
		for _, a := range r.d.Attacks {
			if a.By != c {
				continue
			}
			if a.Name == "silent-from" && a.Phase <= phase {
				if len(msgs) > 0 {
					r.applied[attackKey(a)] = true
				}
				msgs = nil
				continue
			}
			if a.Phase != phase {
				continue
			}
			before := len(msgs)
			msgs = r.apply(a, c, msgs)
			if before > 0 {
				r.applied[attackKey(a)] = true
			}
		}
		out = append(out, msgs...)
	}
	return out
}

func (r *runner) apply(a Attack, c int, msgs []SymMsg) []SymMsg {
	n, t := r.d.N, r.d.T
	each := func(kind string, f func(m *SymMsg)) []SymMsg {
		for i := range msgs {
			if kind == "" || msgs[i].Kind == kind || (kind == "acc" && (msgs[i].Kind == "sacc" || msgs[i].Kind == "pacc")) {
				m := msgs[i].clone()
				f(&m)
				msgs[i] = m
			}
		}
		return msgs
	}
	without := func(kind string) []SymMsg {
		var o []SymMsg
		for _, m := range msgs {
			if m.Kind != kind {
				o = append(o, m)
			}
		}
		return o
	}
	shareEntry := func(m *SymMsg, f func(e *ShareEntry) bool) {
		var o []ShareEntry
		for _, e := range m.Shares {
			if e.M == a.Target {
				e.C.raw = nil
				if !f(&e) {
					continue
				}
			}
			o = append(o, e)
		}
		m.Shares = o
		m.touch()
	}
	switch a.Name {
	case "drop":
		return nil
	case "wrong-session":
		return each("", func(m *SymMsg) { m.SessOK = false; m.touch() })
	case "dup":
		return append(append([]SymMsg{}, msgs...), msgs...)
	case "foreign-index":
		o := append([]SymMsg{}, msgs...)
		for _, m := range msgs {
			f := m.clone()
			f.Sender = a.Target
			f.touch()
			o = append(o, f)
		}
		return o
	case "eph-omit":
		return each("eph", func(m *SymMsg) { m.delKey(a.Target) })
	case "eph-self":
		return each("eph", func(m *SymMsg) { m.setKey(c, r.reg.fresh()) })
	case "eph-copy":
		return each("eph", func(m *SymMsg) { m.setKey(a.Target, uint64(a.Target*256+c)) })
	case "drop-shares":
		return without("shares")
	case "drop-commits":
		return without("commits")
	case "sh-omit":
		return each("shares", func(m *SymMsg) { shareEntry(m, func(e *ShareEntry) bool { return false }) })
	case "sh-garbage":
		return each("shares", func(m *SymMsg) {
			shareEntry(m, func(e *ShareEntry) bool { e.C = SymCipher{Garbage: true}; return true })
		})
	case "sh-wrong-value":
		return each("shares", func(m *SymMsg) {
			shareEntry(m, func(e *ShareEntry) bool {
				e.C.S = mod(new(big.Int).Add(e.C.S, big.NewInt(1+a.Val)))
				return true
			})
		})
	case "sh-wrong-key":
		return each("shares", func(m *SymMsg) {
			shareEntry(m, func(e *ShareEntry) bool { e.C.K2 = r.reg.fresh(); return true })
		})
	case "cm-short":
		return each("commits", func(m *SymMsg) { m.G1 = m.G1[:len(m.G1)-1]; m.touch() })
	case "cm-long":
		return each("commits", func(m *SymMsg) {
			m.G1 = append(m.G1, [2]*big.Int{big.NewInt(1), big.NewInt(1)})
			m.touch()
		})
	case "cm-mutate":
		return each("commits", func(m *SymMsg) {
			k := a.K % len(m.G1)
			m.G1[k] = [2]*big.Int{mod(new(big.Int).Add(m.G1[k][0], big.NewInt(1))), m.G1[k][1]}
			m.touch()
		})
	case "acc-false":
		return each("acc", func(m *SymMsg) { m.setKey(a.Target, uint64(c*256+a.Target)) })
	case "acc-bad-key":
		return each("acc", func(m *SymMsg) { m.setKey(a.Target, r.reg.fresh()) })
	case "acc-self":
		return each("acc", func(m *SymMsg) { m.setKey(c, r.reg.fresh()) })
	case "acc-range":
		return each("acc", func(m *SymMsg) {
			x := 0
			if a.K%2 == 1 {
				x = n + 1
			}
			m.setKey(x, r.reg.fresh())
		})
	case "acc-none":
		return each("acc", func(m *SymMsg) { m.Keys = nil; m.touch() })
	case "acc-quiet":
		return each("acc", func(m *SymMsg) { m.delKey(a.Target) })
	case "pts-short":
		return each("points", func(m *SymMsg) { m.G2 = m.G2[:len(m.G2)-1]; m.touch() })
	case "pts-long":
		return each("points", func(m *SymMsg) { m.G2 = append(m.G2, big.NewInt(5)); m.touch() })
	case "pts-mutate":
		return each("points", func(m *SymMsg) {
			k := a.K % len(m.G2)
			m.G2[k] = mod(new(big.Int).Add(m.G2[k], big.NewInt(1)))
			m.touch()
		})
	case "points-poly-offset":
		return each("points", func(m *SymMsg) { m.G2 = addPoly(m.G2, offsetPoly(a.Val, a.Set, t)); m.touch() })
	case "pts-conflict":
		var o []SymMsg
		for _, m := range msgs {
			if m.Kind != "points" {
				o = append(o, m)
				continue
			}
			alt := m.clone()
			alt.G2 = addPoly(alt.G2, offsetPoly(a.Val, a.Set, t))
			alt.touch()
			if a.K%2 == 0 {
				o = append(o, alt, m)
			} else {
				o = append(o, m, alt)
			}
		}
		return o
	case "rev-omit":
		return each("reveal", func(m *SymMsg) {
			if len(m.Keys) > 0 {
				m.delKey(m.Keys[a.K%len(m.Keys)].M)
			}
		})
	case "rev-extra":
		return each("reveal", func(m *SymMsg) { m.setKey(a.Target, uint64(c*256+a.Target)) })
	case "rev-bad-key":
		return each("reveal", func(m *SymMsg) {
			if len(m.Keys) > 0 {
				m.setKey(m.Keys[a.K%len(m.Keys)].M, r.reg.fresh())
			}
		})
	case "rev-self":
		return each("reveal", func(m *SymMsg) { m.setKey(c, r.reg.fresh()) })
	case "rev-range":
		return each("reveal", func(m *SymMsg) {
			x := 0
			if a.K%2 == 1 {
				x = n + 1
			}
			m.setKey(x, r.reg.fresh())
		})
	case "rev-none":
		return each("reveal", func(m *SymMsg) { m.Keys = nil; m.touch() })
	case "rev-wrong-for":
		return each("reveal", func(m *SymMsg) { m.setKey(a.Target, r.reg.fresh()) })
	}
	r.notes = append(r.notes, "unknown attack "+a.Name)
	return msgs
}
