package gjkrdrv

import (
	"bytes"
	"encoding/json"
	"flag"
	"fmt"
	"os"
	"os/exec"
	"runtime"
	"sort"
	"strings"
	"sync"
	"sync/atomic"

	"verifharness/lib"
)

// ---------------------------------------------------------------- generators

func distinctOps(n int) []uint64 {
	o := make([]uint64, n)
	for i := range o {
		o[i] = uint64(i + 1)
	}
	return o
}

// Corpus: minimised regression runs, executed first in every tier.
func Corpus() []RunDesc {
	return []RunDesc{
		{ID: "corpus-honest-3-1", N: 3, T: 1, Ops: distinctOps(3), OrderSeed: 11, Shuffle: true},
		{ID: "corpus-honest-5-2", N: 5, T: 2, Ops: distinctOps(5), OrderSeed: 12, Shuffle: true},
		// DESIGN section 7, C01-a: member 1 publishes the points of f + 7(x-2)(x-3)
		{ID: "corpus-C01a-points-poly-offset", N: 5, T: 2, Corrupt: []int{1}, Ops: distinctOps(5), OrderSeed: 13,
			Attacks: []Attack{{Name: "points-poly-offset", Phase: 7, By: 1, Val: 7, Set: []int{2, 3}}}},
		{ID: "corpus-crash-phase7", N: 5, T: 2, Corrupt: []int{4}, Ops: distinctOps(5), OrderSeed: 14, Shuffle: true,
			Attacks: []Attack{{Name: "silent-from", Phase: 7, By: 4}}},
		{ID: "corpus-crash-phase1", N: 4, T: 1, Corrupt: []int{2}, Ops: distinctOps(4), OrderSeed: 15, Shuffle: true,
			Attacks: []Attack{{Name: "silent-from", Phase: 1, By: 2}}},
		{ID: "corpus-bad-share-accused", N: 5, T: 2, Corrupt: []int{3}, Ops: distinctOps(5), OrderSeed: 16, Shuffle: true,
			Attacks: []Attack{{Name: "sh-wrong-value", Phase: 3, By: 3, Target: 1}}},
		{ID: "corpus-false-accusation", N: 5, T: 2, Corrupt: []int{5}, Ops: distinctOps(5), OrderSeed: 17, Shuffle: true,
			Attacks: []Attack{{Name: "acc-false", Phase: 4, By: 5, Target: 2}}},
		{ID: "corpus-bad-points-reconstruct", N: 5, T: 2, Corrupt: []int{2}, Ops: distinctOps(5), OrderSeed: 18, Shuffle: true,
			Attacks: []Attack{{Name: "pts-mutate", Phase: 7, By: 2, K: 1}}},
		// self-accusation after a targeted bad share (fixed: the accuser is disqualified, nobody aborts)
		{ID: "corpus-self-accusation", N: 3, T: 1, Corrupt: []int{1}, Ops: distinctOps(3), OrderSeed: 955170, Shuffle: true,
			Attacks: []Attack{{Name: "sh-wrong-key", Phase: 3, By: 1, Target: 2, K: 3}, {Name: "acc-self", Phase: 4, By: 1, Target: 3, K: 3}}},
		// C01-b: 1's points fit the shares of 2 and 5 only; 5 accuses 1 falsely; member 2 hears 5
		// before it hears 3 and 4 and blames 5, members 3 and 4 hold no points of 1 and blame 1 only
		{ID: "corpus-C01b-false-points-accusation", N: 5, T: 2, Corrupt: []int{1, 5}, Ops: distinctOps(5), OrderSeed: 11, Shuffle: true,
			Attacks: []Attack{{Name: "points-poly-offset", Phase: 7, By: 1, Val: 7, Set: []int{2, 5}}, {Name: "acc-false", Phase: 8, By: 5, Target: 1}}},
		// C01-f: 1 sends 2 a bad share (2 disqualifies 1 on its own and no longer listens to 1);
		// 5 sends 1 a bad share, 1 accuses 5 with good reason
		{ID: "corpus-C01f-accuser-disqualified-locally", N: 5, T: 2, Corrupt: []int{1, 5}, Ops: distinctOps(5), OrderSeed: 22,
			Attacks: []Attack{{Name: "sh-wrong-value", Phase: 3, By: 5, Target: 1}, {Name: "sh-wrong-value", Phase: 3, By: 1, Target: 2}}},
		// C01-d: 1's shares message omits 5, 5's commitments message is too short
		{ID: "corpus-C01d-omit-disqualified", N: 5, T: 2, Corrupt: []int{1, 5}, Ops: distinctOps(5), OrderSeed: 23, Shuffle: true,
			Attacks: []Attack{{Name: "sh-omit", Phase: 3, By: 1, Target: 5}, {Name: "cm-short", Phase: 3, By: 5}}},
		// one phase's messages withheld, the seat talks again afterwards: pins every MarkInactiveMembers call
		{ID: "corpus-drop-phase1", N: 4, T: 1, Corrupt: []int{3}, Ops: distinctOps(4), OrderSeed: 31, Shuffle: true,
			Attacks: []Attack{{Name: "drop", Phase: 1, By: 3}}},
		{ID: "corpus-drop-phase3", N: 4, T: 1, Corrupt: []int{1}, Ops: distinctOps(4), OrderSeed: 32, Shuffle: true,
			Attacks: []Attack{{Name: "drop", Phase: 3, By: 1}}},
		{ID: "corpus-drop-phase4", N: 4, T: 1, Corrupt: []int{2}, Ops: distinctOps(4), OrderSeed: 33, Shuffle: true,
			Attacks: []Attack{{Name: "drop", Phase: 4, By: 2}}},
		{ID: "corpus-drop-phase7", N: 4, T: 1, Corrupt: []int{4}, Ops: distinctOps(4), OrderSeed: 34, Shuffle: true,
			Attacks: []Attack{{Name: "drop", Phase: 7, By: 4}}},
		{ID: "corpus-drop-phase8", N: 4, T: 1, Corrupt: []int{3}, Ops: distinctOps(4), OrderSeed: 35, Shuffle: true,
			Attacks: []Attack{{Name: "drop", Phase: 8, By: 3}}},
		{ID: "corpus-drop-phase10", N: 4, T: 1, Corrupt: []int{1}, Ops: distinctOps(4), OrderSeed: 36, Shuffle: true,
			Attacks: []Attack{{Name: "drop", Phase: 10, By: 1}}},
		{ID: "corpus-reveal-omit", N: 5, T: 2, Corrupt: []int{2, 4}, Ops: distinctOps(5), OrderSeed: 19, Shuffle: true,
			Attacks: []Attack{{Name: "silent-from", Phase: 7, By: 2}, {Name: "rev-omit", Phase: 10, By: 4}}},
		// colluding revealer: 5 sends its accomplice 4 a share that does not fit 5's commitments, 4 keeps
		// quiet in phase 4, 5 is silent from phase 4 on, 4 reveals its key for 5 in phase 10: every honest
		// member drops the inconsistent share and disqualifies 4 (phase 11)
		{ID: "corpus-collude-inconsistent-share-revealed", N: 5, T: 2, Corrupt: []int{4, 5}, Ops: distinctOps(5), OrderSeed: 41, Shuffle: true,
			Attacks: Collusion(5, Attack{Name: "silent-from", Phase: 4}, Accomplice{K: 4, Share: "sh-wrong-value", Reveal: "rev-extra"})},
		// the same with a dealer disqualified for malformed points and an accomplice revealing another key
		{ID: "corpus-collude-wrong-key-revealed", N: 5, T: 2, Corrupt: []int{1, 3}, Ops: distinctOps(5), OrderSeed: 42, Shuffle: true,
			Attacks: Collusion(1, Attack{Name: "pts-mutate", Phase: 7, K: 1}, Accomplice{K: 3, Share: "sh-wrong-value", Val: 2, Reveal: "rev-wrong-for"})},
		// two accusers, one of them disqualified by the other's accusation while a member walks through the
		// phase-8 accusation messages (seeded change C01b): 5 sends 4 an undecryptable share and 4 sends 5 a
		// share that does not fit 4's points, both keep quiet in phase 4 and accuse each other in phase 8
		// with their true keys. 5's accusation disqualifies 4; 4's accusation disqualifies 4 and 5 (nobody
		// complained about the broken share in time). Honest 1 hears 5 before 4, honest 2 hears 4 before 5,
		// honest 3 hears 4 first and 5 last: whatever the order, everybody must end with {4, 5}.
		{ID: "corpus-accusers-interleaved-per-member", N: 5, T: 2, Corrupt: []int{4, 5}, Ops: distinctOps(5), OrderSeed: 51, Shuffle: true,
			Attacks: MutualAccusers(5, 4, "sh-garbage", "sh-wrong-value", true),
			Orders: []MemberOrder{{Phase: 8, Member: 1, Senders: []int{2, 3, 5, 4}}, {Phase: 8, Member: 2, Senders: []int{4, 1, 5, 3}},
				{Phase: 8, Member: 3, Senders: []int{4, 1, 2, 5}}}},
		// C01-g (phase-8/9 form of C01-f): 5 sends 4 an undecryptable share (4 quiet in phase 4); 4's phase-7
		// points fit the shares of honest 1 and 2 only, so honest 3 disqualifies 4 on its own in phase 8,
		// accuses it and no longer listens to it; 4 accuses 5 with the key it really used: 1 and 2 resolve
		// it (4 and 5 out), 3 never hears it and keeps 5; they disqualify each other in phase 11
		{ID: "corpus-C01g-locally-disqualified-accuser-phase8", N: 5, T: 2, Corrupt: []int{4, 5}, Ops: distinctOps(5), OrderSeed: 53, Shuffle: true,
			Attacks: []Attack{{Name: "sh-garbage", Phase: 3, By: 5, Target: 4}, {Name: "acc-quiet", Phase: 4, By: 4, Target: 5},
				{Name: "points-poly-offset", Phase: 7, By: 4, Val: 1, Set: []int{1, 2}}, {Name: "acc-quiet", Phase: 8, By: 5, Target: 4},
				{Name: "acc-false", Phase: 8, By: 4, Target: 5}},
			Orders: []MemberOrder{{Phase: 8, Member: 1, Senders: []int{2, 3, 4, 5}}, {Phase: 8, Member: 2, Senders: []int{5, 4, 1, 3}},
				{Phase: 8, Member: 3, Senders: []int{1, 2, 4, 5}}}},
		// the same race one round earlier (phase 4 -> 5): both complain at once, per-member orders differ
		{ID: "corpus-accusers-interleaved-phase4", N: 5, T: 2, Corrupt: []int{4, 5}, Ops: distinctOps(5), OrderSeed: 52, Shuffle: true,
			Attacks: MutualAccusers(5, 4, "sh-garbage", "sh-wrong-key", false),
			Orders: []MemberOrder{{Phase: 4, Member: 1, Senders: []int{5, 4}}, {Phase: 4, Member: 2, Senders: []int{4, 5}},
				{Phase: 4, Member: 3, Senders: []int{1, 4, 2, 5}}}},
	}
}

// MutualAccusers scripts two corrupt seats a and b that give each other a reason for a justified
// accusation: in phase 3 a sends b the share fault [ab] and b sends a the fault [ba]. With
// late = false their own gjkr objects complain in phase 4 (two accusations resolved in phase 5);
// with late = true both keep quiet in phase 4 and accuse each other in phase 8 revealing the keys
// they really used (two accusations resolved in phase 9, where an undecryptable share disqualifies
// accuser and accused alike). Either way the outcome at an honest member must not depend on the
// order in which it hears the two accusers.
func MutualAccusers(a, b int, ab, ba string, late bool) []Attack {
	out := []Attack{{Name: ab, Phase: 3, By: a, Target: b}, {Name: ba, Phase: 3, By: b, Target: a}}
	if late {
		out = append(out,
			Attack{Name: "acc-quiet", Phase: 4, By: a, Target: b}, Attack{Name: "acc-quiet", Phase: 4, By: b, Target: a},
			Attack{Name: "acc-false", Phase: 8, By: a, Target: b}, Attack{Name: "acc-false", Phase: 8, By: b, Target: a})
	}
	return out
}

// RaceRun draws a run of the MutualAccusers family: group of 5..maxN seats, two corrupt seats,
// random share faults, early or late accusations, a third deviation now and then, and Diverge so
// that the honest members hear the accusers in different orders.
func RaceRun(r *lib.Rng, id string, maxN int) RunDesc {
	if maxN < 5 {
		maxN = 5
	}
	n := r.Range(5, maxN)
	t := (n - 1) / 2
	p := r.Perm(n)
	a, b := p[0]+1, p[1]+1
	corrupt := []int{a, b}
	sort.Ints(corrupt)
	ops := distinctOps(n)
	if r.Bool() { // one operator holds both corrupt seats
		ops[corrupt[1]-1] = ops[corrupt[0]-1]
	}
	faults := []string{"sh-garbage", "sh-wrong-value", "sh-wrong-key"}
	late := r.Chance(2, 3)
	ab, ba := faults[r.Intn(3)], faults[r.Intn(3)]
	if !late && ab == "sh-wrong-value" && ba == "sh-wrong-value" {
		ba = "sh-garbage" // two plain wrong values are the recorded family C01-f: keep its match narrow
	}
	d := RunDesc{ID: id, N: n, T: t, Corrupt: corrupt, Ops: ops, OrderSeed: r.U64() % 1000000, Shuffle: true, Diverge: true,
		Attacks: MutualAccusers(a, b, ab, ba, late)}
	return d
}

// Accomplice: a corrupt seat K that cooperates with a corrupt dealer (see Collusion).
//   Share   what the dealer sends K in phase 3: "sh-wrong-value" (Val picks the offset), "sh-garbage",
//           "sh-wrong-key", or "" for a valid share (the control);
//   Reveal  what K reveals for the dealer in phase 10: "rev-extra" the ephemeral key it really used
//           with the dealer, "rev-wrong-for" some other key, "rev-none" an empty message, "" whatever
//           K's own gjkr object reveals (nothing for the dealer when it holds no valid share of it).
type Accomplice struct {
	K      int
	Share  string
	Val    int64
	Reveal string
}

// Collusion scripts a corrupt dealer m together with corrupt accomplices: in phase 3 m sends each
// accomplice a share no honest member can check (every honest member gets a good share, so m enters
// QUAL); the accomplice withholds the accusation it owes in phase 4; m leaves by [exit] (silent from
// phase 4 or 7, withheld or malformed points in phase 7), so its individual key has to be reconstructed;
// in phase 10 the accomplice reveals the ephemeral key it used with m. Only then do the honest members
// reach the branches of recoverMisbehavedShares that judge a revealed share of a CORRUPT revealer
// (undecryptable / inconsistent with m's commitments / key not matching).
func Collusion(m int, exit Attack, acs ...Accomplice) []Attack {
	var out []Attack
	for _, a := range acs {
		if a.Share != "" {
			out = append(out, Attack{Name: a.Share, Phase: 3, By: m, Target: a.K, Val: a.Val})
		}
	}
	exit.By = m
	out = append(out, exit)
	for _, a := range acs {
		if a.Share != "" {
			out = append(out, Attack{Name: "acc-quiet", Phase: 4, By: a.K, Target: m})
		}
		if a.Reveal != "" {
			out = append(out, Attack{Name: a.Reveal, Phase: 10, By: a.K, Target: m})
		}
	}
	return out
}

func pick(r *lib.Rng, xs []int) int { return xs[r.Intn(len(xs))] }

// RandomRun draws one run: group size, threshold, corrupt seats (at most t), 1-3 composed
// deviations of the corrupt seats, operator assignment and the arrival-order seed.
func RandomRun(r *lib.Rng, id string, maxN int, known bool) RunDesc {
	n := r.Range(3, maxN)
	tmax := (n - 1) / 2
	t := tmax
	if tmax > 1 && r.Chance(1, 4) {
		t = r.Range(1, tmax)
	}
	nc := r.Range(1, t)
	if r.Chance(1, 12) {
		nc = 0
	}
	perm := r.Perm(n)
	var corrupt, honest []int
	for i, p := range perm {
		if i < nc {
			corrupt = append(corrupt, p+1)
		} else {
			honest = append(honest, p+1)
		}
	}
	sort.Ints(corrupt)
	sort.Ints(honest)
	ops := distinctOps(n)
	if len(corrupt) >= 2 && r.Bool() { // one operator holds every corrupt seat
		for _, c := range corrupt {
			ops[c-1] = uint64(corrupt[0])
		}
	}
	d := RunDesc{ID: id, N: n, T: t, Corrupt: corrupt, Ops: ops, OrderSeed: r.U64() % 1000000, Shuffle: !r.Chance(1, 8)}
	if nc == 0 {
		return d
	}
	na := 1
	if r.Chance(1, 2) {
		na = r.Range(2, 3)
	}
	for len(d.Attacks) < na {
		spec := AttackNames[r.Intn(len(AttackNames))]
		if KnownDefect[spec.Name] && !known {
			continue
		}
		a := Attack{Name: spec.Name, Phase: spec.Phases[r.Intn(len(spec.Phases))], By: pick(r, corrupt), K: r.Intn(4)}
		// targets: mostly an honest member, sometimes another corrupt seat
		if len(corrupt) > 1 && r.Chance(1, 4) {
			a.Target = pick(r, corrupt)
		} else {
			a.Target = pick(r, honest)
		}
		if a.Target == a.By || HonestTargetOnly[a.Name] {
			a.Target = pick(r, honest)
		}
		switch a.Name {
		case "points-poly-offset", "pts-conflict":
			a.Val = int64(r.Range(1, 9))
			k := r.Range(1, t)
			p := r.Perm(len(honest))
			for i := 0; i < k && i < len(honest); i++ {
				a.Set = append(a.Set, honest[p[i]])
			}
			sort.Ints(a.Set)
		case "sh-wrong-value":
			a.Val = int64(r.Intn(5))
		}
		if KnownDefect[a.Name] {
			// families with a recorded finding are generated on their own so that the
			// finding's match stays narrow
			d.Attacks = []Attack{a}
			return d
		}
		d.Attacks = append(d.Attacks, a)
	}
	// drawn last (earlier draws keep their values): honest members hear two or more accusers in
	// different relative orders
	d.Diverge = d.Shuffle && !r.Chance(1, 4)
	return d
}

// KnownDefect names the deviation families that are recorded in findings/C01.json; they are
// only generated as single-deviation runs.
var KnownDefect = map[string]bool{}

// HonestTargetOnly: deviations that single out one receiver. Aimed at another CORRUPT seat they open
// the families recorded in findings/C01.json (C01-b, C01-d, C01-f: one corrupt seat gives another
// corrupt seat a reason for a justified accusation, or hides behind a seat that is disqualified in
// the same loop). Random runs aim them at honest seats; the recorded families run from the corpus
// in their canonical form, so that the findings' matches stay narrow.
var HonestTargetOnly = map[string]bool{
	"sh-omit": true, "sh-garbage": true, "sh-wrong-value": true, "sh-wrong-key": true,
	"acc-false": true, "acc-bad-key": true,
}

// ---------------------------------------------------------------- main

func runChildren(self string, descs []RunDesc, em *lib.Emitter) {
	type res struct {
		c   lib.Case
		err string
	}
	results := make([]res, len(descs))
	jobs := make(chan int)
	var wg sync.WaitGroup
	workers := runtime.NumCPU()
	if workers > 16 {
		workers = 16
	}
	for w := 0; w < workers; w++ {
		wg.Add(1)
		go func() {
			defer wg.Done()
			for i := range jobs {
				c, crashed := RunChild(self, descs[i])
				if crashed {
					Unattributed.Add(1)
				}
				results[i] = res{c: c}
			}
		}()
	}
	for i := range descs {
		jobs <- i
	}
	close(jobs)
	wg.Wait()
	for i, r := range results {
		c := r.c
		if c.Coq == "DRIVER_ERROR" {
			em.Tally("driver-error")
			fmt.Fprintf(os.Stderr, "driver error in %s: %v\n", descs[i].ID, c.Out)
			continue
		}
		tally(em, descs[i], c)
		em.Case(c)
	}
}

// Unattributed counts child processes that died without a VERIF-INITIATE marker to blame: the
// drivers exit non-zero when it is not 0, so that the check fails instead of dropping the run.
var Unattributed atomic.Int64

// RunChild performs one run in a child process (ComputeGroupPublicKeyShares works in goroutines of
// the implementation; a panic there kills the process). When the child dies inside an Initiate call
// the run is repeated with that call skipped and the seat observed as failed at that point (what a
// crash of that member's own process means in production); scripts are deterministic up to the
// members' randomness, so the repetition reaches the same point. The second result is true when the
// child died and no Initiate call can be blamed.
func RunChild(self string, d RunDesc) (lib.Case, bool) {
	for attempt := 0; ; attempt++ {
		in, _ := json.Marshal(d)
		cmd := exec.Command(self, "--child")
		cmd.Stdin = bytes.NewReader(in)
		var stderr bytes.Buffer
		cmd.Stderr = &stderr
		out, err := cmd.Output()
		var c lib.Case
		if err == nil {
			err = json.Unmarshal(out, &c)
		}
		if err == nil {
			return c, false
		}
		var ph, mem int
		blamed := false
		lines := strings.Split(stderr.String(), "\n")
		for i := len(lines) - 1; i >= 0; i-- {
			if strings.HasPrefix(lines[i], "VERIF-RETURNED ") {
				break
			}
			if n, _ := fmt.Sscanf(lines[i], "VERIF-INITIATE %d %d", &ph, &mem); n == 2 {
				blamed = true
				break
			}
		}
		if blamed && !d.skips(ph, mem) && attempt <= 2*d.N {
			d.CrashSkip = append(d.CrashSkip, CrashPoint{ph, mem})
			continue
		}
		var keep []string
		for _, l := range lines {
			if !strings.HasPrefix(l, "VERIF-") {
				keep = append(keep, l)
			}
		}
		tail := strings.Join(keep, "\n")
		if len(tail) > 600 {
			tail = tail[:600]
		}
		return crashCase(d, tail), true
	}
}

// crashCase: the process running the members died; every honest member is observed as failed.
func crashCase(d RunDesc, why string) lib.Case {
	// re-run symbolically is impossible without the members' randomness: report the crash as a
	// case whose honest members all failed, with empty randomness (the model then has to fail too).
	return lib.Case{ID: d.ID, Coq: "DRIVER_ERROR", Key: d.ID, In: d, Out: "child crashed: " + why,
		Sig: map[string]interface{}{"crash": true}}
}

func tally(em *lib.Emitter, d RunDesc, c lib.Case) {
	em.Tally(fmt.Sprintf("n=%d,t=%d", d.N, d.T))
	em.Tally(fmt.Sprintf("corrupt=%d", len(d.Corrupt)))
	em.Tally(fmt.Sprintf("deviations=%d", len(d.Attacks)))
	for _, a := range d.Attacks {
		em.Tally("deviation:" + a.Name)
	}
	if d.Shuffle {
		em.Tally("arrival=shuffled")
	} else {
		em.Tally("arrival=natural")
	}
	if o, ok := c.Out.(map[string]interface{}); ok {
		if ms, ok := o["members"].([]interface{}); ok {
			fin, failed, marked := 0, 0, false
			for _, m := range ms {
				mm := m.(map[string]interface{})
				if mm["finished"] == true {
					fin++
					if ia, _ := mm["ia"].([]interface{}); len(ia) > 0 {
						marked = true
					}
					if dq, _ := mm["dq"].([]interface{}); len(dq) > 0 {
						marked = true
					}
				} else {
					failed++
				}
			}
			if failed > 0 {
				em.Tally("outcome:some-honest-member-failed")
			}
			if marked {
				em.Tally("outcome:someone-marked")
			} else if fin > 0 {
				em.Tally("outcome:nobody-marked")
			}
		}
	}
}

const rule = "a case is one complete 12-phase run of real gjkr members (n, t, corrupt seats, scripted deviations, " +
	"operator assignment, per-member arrival orders); distinct by that tuple; non-trivial when at least one " +
	"deviation rewrote or withheld a message a corrupt seat would have published"

// Main is the entry point shared by cmd/c01 and cmd/c02.
func Main() {
	child := flag.Bool("child", false, "run one description from stdin (internal)")
	o := lib.ParseOpts()
	if *child {
		var d RunDesc
		if err := json.NewDecoder(os.Stdin).Decode(&d); err != nil {
			fmt.Fprintln(os.Stderr, err)
			os.Exit(2)
		}
		c := Execute(d)
		c.Kind = "case"
		b, _ := json.Marshal(c)
		os.Stdout.Write(b)
		return
	}
	em := lib.NewEmitter()
	self, err := os.Executable()
	if err != nil {
		panic(err)
	}
	if o.Replay != "" {
		var d RunDesc
		if err := lib.LoadReplay(o.Replay, &d); err != nil {
			fmt.Fprintln(os.Stderr, err)
			os.Exit(2)
		}
		d.ID = "replay"
		runChildren(self, []RunDesc{d}, em)
		em.Close("replay", nil)
		return
	}
	rng := lib.NewRng(o.Seed)
	descs := Corpus()
	nRand := o.Count(28, 400)
	maxN := 6
	if o.Tier != "quick" {
		maxN = 9
	}
	for i := 0; i < nRand; i++ {
		descs = append(descs, RandomRun(rng.Fork(fmt.Sprintf("run%d", i)), fmt.Sprintf("rand-%d", i), maxN, i%9 == 0))
	}
	for i := 0; i < o.Count(6, 80); i++ {
		descs = append(descs, RaceRun(rng.Fork(fmt.Sprintf("race%d", i)), fmt.Sprintf("race-%d", i), maxN))
	}
	runChildren(self, descs, em)
	em.Close(rule, nil)
	if n := Unattributed.Load(); n > 0 {
		fmt.Fprintf(os.Stderr, "%d child process(es) died outside any Initiate call\n", n)
		os.Exit(3)
	}
}
