// Package gjkrdrv drives REAL pkg/beacon/gjkr members phase by phase (the real state objects of
// states.go, a capturing channel and a lock-step sequencer in place of state.SyncMachine), lets a
// scripted adversary rewrite what the corrupt seats publish, delivers every message to every
// honest member in a per-member arrival order, and prints the same run symbolically as a Coq
// term of Model/C01.v's [case] type.  Shared by the drivers of C01 and C02.
package gjkrdrv

import (
	"context"
	"crypto/rand"
	"fmt"
	"math/big"
	"os"
	"sort"
	"strings"

	bn256 "github.com/ethereum/go-ethereum/crypto/bn256/cloudflare"
	"github.com/keep-network/keep-core/pkg/beacon/gjkr"
	"github.com/keep-network/keep-core/pkg/chain"
	"github.com/keep-network/keep-core/pkg/crypto/ephemeral"
	"github.com/keep-network/keep-core/pkg/net"
	"github.com/keep-network/keep-core/pkg/operator"
	"github.com/keep-network/keep-core/pkg/protocol/group"
	"github.com/keep-network/keep-core/pkg/protocol/state"

	"verifharness/lib"
)

var Q = bn256.Order

const goodSession = "verif-session-1"
const badSession = "verif-session-2"

// ---------------------------------------------------------------- fakes

type nopLogger struct{}

func (nopLogger) Debug(args ...interface{})                   {}
func (nopLogger) Debugf(format string, args ...interface{})   {}
func (nopLogger) Error(args ...interface{})                   {}
func (nopLogger) Errorf(format string, args ...interface{})   {}
func (nopLogger) Fatal(args ...interface{})                   {}
func (nopLogger) Fatalf(format string, args ...interface{})   {}
func (nopLogger) Info(args ...interface{})                    {}
func (nopLogger) Infof(format string, args ...interface{})    {}
func (nopLogger) Panic(args ...interface{})                   {}
func (nopLogger) Panicf(format string, args ...interface{})   {}
func (nopLogger) Warn(args ...interface{})                    {}
func (nopLogger) Warnf(format string, args ...interface{})    {}

// fakeSigning: an operator's public key bytes are the text of its address.
type fakeSigning struct{}

func (fakeSigning) Address() chain.Address                { return "" }
func (fakeSigning) PublicKey() []byte                     { return nil }
func (fakeSigning) Sign(message []byte) ([]byte, error)   { return nil, nil }
func (fakeSigning) Verify(m []byte, s []byte) (bool, error) {
	return true, nil
}
func (fakeSigning) VerifyWithPublicKey(m []byte, s []byte, p []byte) (bool, error) {
	return true, nil
}
func (fakeSigning) PublicKeyToAddress(p *operator.PublicKey) (chain.Address, error) {
	return "", fmt.Errorf("unused")
}
func (fakeSigning) PublicKeyBytesToAddress(p []byte) chain.Address { return chain.Address(string(p)) }

func opAddr(op uint64) string { return fmt.Sprintf("op%03d", op) }

// capChannel records what a member sends.
type capChannel struct{ sent []interface{} }

func (c *capChannel) Name() string { return "verif" }
func (c *capChannel) Send(ctx context.Context, m net.TaggedMarshaler, s ...net.RetransmissionStrategy) error {
	c.sent = append(c.sent, m)
	return nil
}
func (c *capChannel) Recv(ctx context.Context, handler func(m net.Message)) {}
func (c *capChannel) SetUnmarshaler(u func() net.TaggedUnmarshaler)       {}
func (c *capChannel) SetFilter(f net.BroadcastChannelFilter) error        { return nil }

type fakeID string

func (f fakeID) String() string { return string(f) }

type fakeMsg struct {
	op      uint64
	payload interface{}
}

func (m *fakeMsg) TransportSenderID() net.TransportIdentifier { return fakeID(opAddr(m.op)) }
func (m *fakeMsg) SenderPublicKey() []byte                    { return []byte(opAddr(m.op)) }
func (m *fakeMsg) Payload() interface{}                       { return m.payload }
func (m *fakeMsg) Type() string                               { return "verif" }
func (m *fakeMsg) Seqno() uint64                              { return 0 }

// ---------------------------------------------------------------- symbolic messages

type SymCipher struct {
	Garbage bool
	K1, K2  uint64 // unordered pair of ephemeral key ids
	S, T    *big.Int
	raw     *[2][]byte // the original ciphertexts while the entry is untouched
}

type KeyEntry struct {
	M  int // member index (may be 0 or n+1 in adversarial messages)
	ID uint64
}
type ShareEntry struct {
	M int
	C SymCipher
}

type SymMsg struct {
	Kind   string // eph | shares | commits | sacc | points | pacc | reveal
	Sender int
	SessOK bool
	FromOp uint64
	Keys   []KeyEntry     // eph, sacc, pacc, reveal
	Shares []ShareEntry   // shares
	G1     [][2]*big.Int  // commits
	G2     []*big.Int     // points
	orig   interface{}    // the concrete message while untouched
	dirty  bool
}

func (m *SymMsg) touch() { m.dirty = true; m.orig = nil }

func (m SymMsg) clone() SymMsg {
	c := m
	c.Keys = append([]KeyEntry{}, m.Keys...)
	c.Shares = append([]ShareEntry{}, m.Shares...)
	c.G1 = append([][2]*big.Int{}, m.G1...)
	c.G2 = append([]*big.Int{}, m.G2...)
	return c
}

func (m *SymMsg) setKey(member int, id uint64) {
	for i := range m.Keys {
		if m.Keys[i].M == member {
			m.Keys[i].ID = id
			m.touch()
			return
		}
	}
	m.Keys = append(m.Keys, KeyEntry{member, id})
	sort.Slice(m.Keys, func(a, b int) bool { return m.Keys[a].M < m.Keys[b].M })
	m.touch()
}
func (m *SymMsg) delKey(member int) {
	var r []KeyEntry
	for _, k := range m.Keys {
		if k.M != member {
			r = append(r, k)
		}
	}
	m.Keys = r
	m.touch()
}

func sess(ok bool) string {
	if ok {
		return "1"
	}
	return "2"
}

func zs(v *big.Int) string { return lib.ZBig(new(big.Int).Mod(v, Q)) }

func (m SymMsg) coq() string {
	hd := fmt.Sprintf("%d %s", m.Sender, sess(m.SessOK))
	var body, ctor string
	keys := func() string {
		it := make([]string, len(m.Keys))
		for i, k := range m.Keys {
			it[i] = fmt.Sprintf("(%d, %d)", k.M, k.ID)
		}
		return lib.List(it)
	}
	switch m.Kind {
	case "eph":
		ctor, body = "EphPub", keys()
	case "sacc":
		ctor, body = "SAccuse", keys()
	case "pacc":
		ctor, body = "PAccuse", keys()
	case "reveal":
		ctor, body = "Reveal", keys()
	case "shares":
		it := make([]string, len(m.Shares))
		for i, s := range m.Shares {
			if s.C.Garbage {
				it[i] = fmt.Sprintf("(%d, Garbage)", s.M)
			} else {
				a, b := s.C.K1, s.C.K2
				if a > b {
					a, b = b, a
				}
				it[i] = fmt.Sprintf("(%d, Enc (%d, %d) %s %s)", s.M, a, b, zs(s.C.S), zs(s.C.T))
			}
		}
		ctor, body = "Shares", lib.List(it)
	case "commits":
		it := make([]string, len(m.G1))
		for i, c := range m.G1 {
			it[i] = fmt.Sprintf("(%s, %s)", zs(c[0]), zs(c[1]))
		}
		ctor, body = "Commits", lib.List(it)
	case "points":
		it := make([]string, len(m.G2))
		for i, c := range m.G2 {
			it[i] = zs(c)
		}
		ctor, body = "Points", lib.List(it)
	}
	return fmt.Sprintf("{| payload := %s %s %s; from_key := %d |}", ctor, hd, body, m.FromOp)
}

// ---------------------------------------------------------------- key registry

type keyReg struct {
	pairs  map[uint64]*ephemeral.KeyPair
	pubID  map[string]uint64
	privID map[string]uint64
	next   uint64
}

func newKeyReg() *keyReg {
	return &keyReg{pairs: map[uint64]*ephemeral.KeyPair{}, pubID: map[string]uint64{},
		privID: map[string]uint64{}, next: 1000000}
}
func (k *keyReg) add(id uint64, kp *ephemeral.KeyPair) {
	k.pairs[id] = kp
	k.pubID[string(kp.PublicKey.Marshal())] = id
	k.privID[string(kp.PrivateKey.Marshal())] = id
}
func (k *keyReg) fresh() uint64 {
	kp, err := ephemeral.GenerateKeyPair()
	if err != nil {
		panic(err)
	}
	k.next++
	k.add(k.next, kp)
	return k.next
}

// ---------------------------------------------------------------- polynomial helpers

func mod(v *big.Int) *big.Int { return new(big.Int).Mod(v, Q) }

func evalPoly(coefs []*big.Int, x int) *big.Int {
	r := big.NewInt(0)
	xp := big.NewInt(1)
	for _, a := range coefs {
		r = mod(new(big.Int).Add(r, new(big.Int).Mul(a, xp)))
		xp = mod(new(big.Int).Mul(xp, big.NewInt(int64(x))))
	}
	return r
}

// solveCoefficients returns the coefficients of the polynomial of degree < len(xs) through the
// points (xs[i], ys[i]) (Gaussian elimination over Z_q on the Vandermonde system).
func solveCoefficients(xs []int, ys []*big.Int) []*big.Int {
	n := len(xs)
	a := make([][]*big.Int, n)
	for i := range a {
		a[i] = make([]*big.Int, n+1)
		p := big.NewInt(1)
		for j := 0; j < n; j++ {
			a[i][j] = new(big.Int).Set(p)
			p = mod(new(big.Int).Mul(p, big.NewInt(int64(xs[i]))))
		}
		a[i][n] = mod(ys[i])
	}
	for col := 0; col < n; col++ {
		piv := -1
		for r := col; r < n; r++ {
			if a[r][col].Sign() != 0 {
				piv = r
				break
			}
		}
		if piv < 0 {
			panic("singular Vandermonde system")
		}
		a[col], a[piv] = a[piv], a[col]
		inv := new(big.Int).ModInverse(a[col][col], Q)
		for j := col; j <= n; j++ {
			a[col][j] = mod(new(big.Int).Mul(a[col][j], inv))
		}
		for r := 0; r < n; r++ {
			if r != col && a[r][col].Sign() != 0 {
				f := new(big.Int).Set(a[r][col])
				for j := col; j <= n; j++ {
					a[r][j] = mod(new(big.Int).Sub(a[r][j], new(big.Int).Mul(f, a[col][j])))
				}
			}
		}
	}
	out := make([]*big.Int, n)
	for i := range out {
		out[i] = a[i][n]
	}
	return out
}

func lagrange0(ids []int, vals []*big.Int) *big.Int {
	sum := big.NewInt(0)
	for i, k := range ids {
		l := big.NewInt(1)
		for _, o := range ids {
			if o != k {
				inv := new(big.Int).ModInverse(mod(big.NewInt(int64(o-k))), Q)
				l = mod(new(big.Int).Mul(l, mod(new(big.Int).Mul(big.NewInt(int64(o)), inv))))
			}
		}
		sum = mod(new(big.Int).Add(sum, new(big.Int).Mul(vals[i], l)))
	}
	return sum
}

func g2Key(p *bn256.G2) string { return string(p.Marshal()) }
func g2Mul(d *big.Int) *bn256.G2 { return new(bn256.G2).ScalarBaseMult(mod(d)) }

// ---------------------------------------------------------------- the run

type Attack struct {
	Name   string `json:"name"`
	Phase  int    `json:"phase"`
	By     int    `json:"by"`
	Target int    `json:"target,omitempty"`
	K      int    `json:"k,omitempty"`
	Val    int64  `json:"val,omitempty"`
	Set    []int  `json:"set,omitempty"`
}

type RunDesc struct {
	ID        string   `json:"id"`
	N         int      `json:"n"`
	T         int      `json:"t"`
	Corrupt   []int    `json:"corrupt"`
	Ops       []uint64 `json:"ops"` // operator key of seat i+1
	Attacks   []Attack `json:"attacks"`
	OrderSeed uint64   `json:"order_seed"`
	Shuffle   bool     `json:"shuffle"` // false: every member sees the natural order
	// CrashSkip: Initiate calls that killed the whole process in an earlier attempt (a panic in a
	// goroutine the implementation spawned cannot be recovered in-process). The seat is observed as
	// failed at that point instead, like a fatal error of its Initiate. Filled in by RunChild.
	CrashSkip []CrashPoint `json:"crash_skip,omitempty"`
	// Orders: explicit cross-sender arrival orders of one phase's messages at one honest member
	// (the network may deliver the same broadcast messages to different members in different
	// orders); members / phases without an entry follow OrderSeed / Shuffle.
	Orders []MemberOrder `json:"orders,omitempty"`
	// Diverge: whenever two or more non-empty accusation messages are in flight (phase 4 -> 5,
	// phase 8 -> 9) the honest members see those messages in different relative orders: the k-th
	// honest member sees the accusers rotated by k/2, reversed when k is odd; every other
	// message keeps the position OrderSeed gave it.
	Diverge bool `json:"diverge,omitempty"`
}

// MemberOrder: at member Member the messages sent in phase Phase arrive sender by sender in the
// order Senders (seat numbers; every message of one sender in the order it was sent); senders that
// are not listed follow in seat order.
type MemberOrder struct {
	Phase   int   `json:"phase"`
	Member  int   `json:"member"`
	Senders []int `json:"senders"`
}

func (d RunDesc) orderFor(phase, member int) []int {
	for _, o := range d.Orders {
		if o.Phase == phase && o.Member == member {
			return o.Senders
		}
	}
	return nil
}

// senderOrder: indices of [all] sender by sender as listed, the rest in their natural order
func senderOrder(all []wire, senders []int) []int {
	var out []int
	used := make([]bool, len(all))
	for _, sd := range senders {
		for i, w := range all {
			if !used[i] && w.from == sd {
				used[i] = true
				out = append(out, i)
			}
		}
	}
	for i := range all {
		if !used[i] {
			out = append(out, i)
		}
	}
	return out
}

// accusing reports whether a concrete message is an accusation message naming somebody
func accusing(x interface{}) bool {
	switch msg := x.(type) {
	case *gjkr.SecretSharesAccusationsMessage:
		return len(msg.VerifAccused()) > 0
	case *gjkr.PointsAccusationsMessage:
		return len(msg.VerifAccused()) > 0
	}
	return false
}

// diverge rewrites [order] for the k-th honest member: the slots holding accusing messages get
// those messages (ascending index) rotated by k/2, reversed when k is odd
func diverge(all []wire, order []int, k int) []int {
	var acc []int
	for i, w := range all {
		if accusing(w.payload) {
			acc = append(acc, i)
		}
	}
	if len(acc) < 2 {
		return order
	}
	seq := make([]int, len(acc))
	for i := range acc {
		seq[i] = acc[(i+k/2)%len(acc)]
	}
	if k%2 == 1 {
		for i, j := 0, len(seq)-1; i < j; i, j = i+1, j-1 {
			seq[i], seq[j] = seq[j], seq[i]
		}
	}
	isAcc := map[int]bool{}
	for _, i := range acc {
		isAcc[i] = true
	}
	out := make([]int, len(order))
	n := 0
	for p, i := range order {
		if isAcc[i] {
			out[p] = seq[n]
			n++
		} else {
			out[p] = i
		}
	}
	return out
}

type CrashPoint struct {
	Phase  int `json:"phase"`
	Member int `json:"member"`
}

func (d RunDesc) skips(phase, member int) bool {
	for _, c := range d.CrashSkip {
		if c.Phase == phase && c.Member == member {
			return true
		}
	}
	return false
}

type mem struct {
	id      int
	corrupt bool
	ch      *capChannel
	st      state.SyncState
	dead    bool
	why     string
	coefA   []*big.Int
	coefB   []*big.Int
	// phase 12: the public key shares, read as soon as the member's own goroutine delivered them
	ps       map[group.MemberIndex]*bn256.G2
	advanced bool
}

type runner struct {
	d       RunDesc
	ms      []*mem // index id-1
	reg     *keyReg
	h       *bn256.G1
	g2log   map[string]*big.Int
	advCoq  map[int][]string
	orders  map[int]map[int][]int
	applied map[string]bool
	notes   []string
}

func (r *runner) isCorrupt(i int) bool {
	for _, c := range r.d.Corrupt {
		if c == i {
			return true
		}
	}
	return false
}

func safely(f func() error) (err error, panicked bool) {
	defer func() {
		if x := recover(); x != nil {
			err, panicked = fmt.Errorf("panic: %v", x), true
		}
	}()
	return f(), false
}

func (r *runner) view(m *mem) *gjkr.VerifView { return gjkr.VerifInspect(m.st) }

var sendingPhase = map[int]bool{1: true, 3: true, 4: true, 7: true, 8: true, 10: true}

// recoverPolynomials reads polynomial a from the member and interpolates polynomial b from the
// t-shares the member produced (its own and the ones it encrypted for the others).
func (r *runner) recoverPolynomials(m *mem) error {
	v := r.view(m)
	if v == nil || v.SecretCoefficients == nil {
		return fmt.Errorf("member %d has no coefficients", m.id)
	}
	m.coefA = v.SecretCoefficients
	xs := []int{m.id}
	ys := []*big.Int{v.SelfShareT}
	var sharesMsg *gjkr.PeerSharesMessage
	var commits *gjkr.MemberCommitmentsMessage
	for _, s := range m.ch.sent {
		switch x := s.(type) {
		case *gjkr.PeerSharesMessage:
			sharesMsg = x
		case *gjkr.MemberCommitmentsMessage:
			commits = x
		}
	}
	if sharesMsg == nil || commits == nil {
		return fmt.Errorf("member %d sent no shares/commitments", m.id)
	}
	sh := sharesMsg.VerifShares()
	for j := 1; j <= r.d.N; j++ {
		c, ok := sh[group.MemberIndex(j)]
		if !ok {
			continue
		}
		key := v.SymmetricKeys[group.MemberIndex(j)]
		pt, err := key.Decrypt(c[1])
		if err != nil {
			return fmt.Errorf("member %d cannot decrypt its own t-share for %d", m.id, j)
		}
		xs = append(xs, j)
		ys = append(ys, new(big.Int).SetBytes(pt))
	}
	if len(xs) < r.d.T+1 {
		return fmt.Errorf("member %d: only %d t-shares, cannot interpolate", m.id, len(xs))
	}
	m.coefB = solveCoefficients(xs[:r.d.T+1], ys[:r.d.T+1])
	for i := range xs {
		if evalPoly(m.coefB, xs[i]).Cmp(mod(ys[i])) != 0 {
			return fmt.Errorf("member %d: t-shares are not on one polynomial", m.id)
		}
	}
	for k, c := range commits.VerifCommitments() {
		if r.commitment(m.coefA[k], m.coefB[k]).String() != c.String() {
			return fmt.Errorf("member %d: commitment %d does not match recovered coefficients", m.id, k)
		}
	}
	return nil
}

func (r *runner) commitment(a, b *big.Int) *bn256.G1 {
	gs := new(bn256.G1).ScalarBaseMult(mod(a))
	ht := new(bn256.G1).ScalarMult(r.h, mod(b))
	return new(bn256.G1).Add(gs, ht)
}

// lift turns a concrete message produced by the real object of corrupt seat m into symbolic form.
func (r *runner) lift(m *mem, x interface{}) (SymMsg, error) {
	s := SymMsg{Sender: m.id, SessOK: true, FromOp: r.d.Ops[m.id-1], orig: x}
	privKeys := func(mp map[group.MemberIndex]*ephemeral.PrivateKey) error {
		for j, k := range mp {
			id, ok := r.reg.privID[string(k.Marshal())]
			if !ok {
				return fmt.Errorf("unknown private key in a message of %d", m.id)
			}
			s.Keys = append(s.Keys, KeyEntry{int(j), id})
		}
		sort.Slice(s.Keys, func(a, b int) bool { return s.Keys[a].M < s.Keys[b].M })
		return nil
	}
	switch msg := x.(type) {
	case *gjkr.EphemeralPublicKeyMessage:
		s.Kind = "eph"
		for j, k := range msg.VerifKeys() {
			s.Keys = append(s.Keys, KeyEntry{int(j), r.reg.pubID[string(k.Marshal())]})
		}
		sort.Slice(s.Keys, func(a, b int) bool { return s.Keys[a].M < s.Keys[b].M })
	case *gjkr.PeerSharesMessage:
		s.Kind = "shares"
		v := r.view(m)
		for j, c := range msg.VerifShares() {
			pk := v.LoggedEphemeralKey(j, group.MemberIndex(m.id))
			if pk == nil {
				return s, fmt.Errorf("corrupt %d has no logged key of %d", m.id, j)
			}
			raw := c
			s.Shares = append(s.Shares, ShareEntry{int(j), SymCipher{
				K1: uint64(m.id*256 + int(j)), K2: r.reg.pubID[string(pk.Marshal())],
				S: evalPoly(m.coefA, int(j)), T: evalPoly(m.coefB, int(j)), raw: &raw}})
		}
		sort.Slice(s.Shares, func(a, b int) bool { return s.Shares[a].M < s.Shares[b].M })
	case *gjkr.MemberCommitmentsMessage:
		s.Kind = "commits"
		for k := range msg.VerifCommitments() {
			s.G1 = append(s.G1, [2]*big.Int{m.coefA[k], m.coefB[k]})
		}
	case *gjkr.SecretSharesAccusationsMessage:
		s.Kind = "sacc"
		if err := privKeys(msg.VerifAccused()); err != nil {
			return s, err
		}
	case *gjkr.MemberPublicKeySharePointsMessage:
		s.Kind = "points"
		for k := range msg.VerifPoints() {
			s.G2 = append(s.G2, m.coefA[k])
		}
	case *gjkr.PointsAccusationsMessage:
		s.Kind = "pacc"
		if err := privKeys(msg.VerifAccused()); err != nil {
			return s, err
		}
	case *gjkr.MisbehavedEphemeralKeysMessage:
		s.Kind = "reveal"
		if err := privKeys(msg.VerifKeys()); err != nil {
			return s, err
		}
	default:
		return s, fmt.Errorf("unknown message type %T", x)
	}
	return s, nil
}

// realise builds the concrete gjkr message of a symbolic one.
func (r *runner) realise(s SymMsg) interface{} {
	if s.orig != nil && !s.dirty {
		return s.orig
	}
	sid := goodSession
	if !s.SessOK {
		sid = badSession
	}
	sender := group.MemberIndex(s.Sender)
	privs := func() map[group.MemberIndex]*ephemeral.PrivateKey {
		mp := map[group.MemberIndex]*ephemeral.PrivateKey{}
		for _, k := range s.Keys {
			mp[group.MemberIndex(k.M)] = r.reg.pairs[k.ID].PrivateKey
		}
		return mp
	}
	switch s.Kind {
	case "eph":
		mp := map[group.MemberIndex]*ephemeral.PublicKey{}
		for _, k := range s.Keys {
			mp[group.MemberIndex(k.M)] = r.reg.pairs[k.ID].PublicKey
		}
		return gjkr.VerifEphemeralPublicKeyMessage(sender, mp, sid)
	case "shares":
		mp := map[group.MemberIndex][2][]byte{}
		for _, e := range s.Shares {
			switch {
			case e.C.Garbage:
				a, b := make([]byte, 48), make([]byte, 48)
				rand.Read(a)
				rand.Read(b)
				mp[group.MemberIndex(e.M)] = [2][]byte{a, b}
			case e.C.raw != nil:
				mp[group.MemberIndex(e.M)] = *e.C.raw
			default:
				key := r.reg.pairs[e.C.K1].PrivateKey.Ecdh(r.reg.pairs[e.C.K2].PublicKey)
				a, err := key.Encrypt(mod(e.C.S).Bytes())
				if err != nil {
					panic(err)
				}
				b, err := key.Encrypt(mod(e.C.T).Bytes())
				if err != nil {
					panic(err)
				}
				mp[group.MemberIndex(e.M)] = [2][]byte{a, b}
			}
		}
		return gjkr.VerifPeerSharesMessage(sender, mp, sid)
	case "commits":
		cs := make([]*bn256.G1, len(s.G1))
		for i, c := range s.G1 {
			cs[i] = r.commitment(c[0], c[1])
		}
		return gjkr.VerifMemberCommitmentsMessage(sender, cs, sid)
	case "sacc":
		return gjkr.VerifSecretSharesAccusationsMessage(sender, privs(), sid)
	case "points":
		ps := make([]*bn256.G2, len(s.G2))
		for i, d := range s.G2 {
			ps[i] = g2Mul(d)
			r.g2log[g2Key(ps[i])] = mod(d)
		}
		return gjkr.VerifMemberPublicKeySharePointsMessage(sender, ps, sid)
	case "pacc":
		return gjkr.VerifPointsAccusationsMessage(sender, privs(), sid)
	case "reveal":
		return gjkr.VerifMisbehavedEphemeralKeysMessage(sender, privs(), sid)
	}
	panic("realise: kind " + s.Kind)
}

type wire struct {
	op      uint64
	payload interface{}
	from    int // sending seat
}

// arrival order for one receiver: a random merge of the per-operator queues
func arrivalOrder(all []wire, rng *lib.Rng, shuffle bool) []int {
	idx := make([]int, len(all))
	for i := range idx {
		idx[i] = i
	}
	if !shuffle {
		return idx
	}
	queues := map[uint64][]int{}
	var opsOrder []uint64
	for i, w := range all {
		if _, ok := queues[w.op]; !ok {
			opsOrder = append(opsOrder, w.op)
		}
		queues[w.op] = append(queues[w.op], i)
	}
	out := make([]int, 0, len(all))
	for len(out) < len(all) {
		var live []uint64
		for _, o := range opsOrder {
			if len(queues[o]) > 0 {
				live = append(live, o)
			}
		}
		o := live[rng.Intn(len(live))]
		out = append(out, queues[o][0])
		queues[o] = queues[o][1:]
	}
	return out
}

// Execute performs one run and returns the case to emit.
func Execute(d RunDesc) lib.Case {
	r := &runner{d: d, reg: newKeyReg(), g2log: map[string]*big.Int{}, advCoq: map[int][]string{},
		orders: map[int]map[int][]int{}, applied: map[string]bool{}}
	addrs := make([]chain.Address, d.N)
	for i := range addrs {
		addrs[i] = chain.Address(opAddr(d.Ops[i]))
	}
	validator := group.NewMembershipValidator(nopLogger{}, addrs, fakeSigning{})
	seed := big.NewInt(int64(d.OrderSeed%100000) + 7)
	for i := 1; i <= d.N; i++ {
		lm, err := gjkr.NewMember(nopLogger{}, group.MemberIndex(i), d.N, d.T, validator, seed, goodSession)
		if err != nil {
			panic(err)
		}
		ch := &capChannel{}
		r.ms = append(r.ms, &mem{id: i, corrupt: r.isCorrupt(i), ch: ch, st: gjkr.VerifInitialState(ch, lm)})
	}
	r.h = r.view(r.ms[0]).H
	orderRng := lib.NewRng(d.OrderSeed)
	zero := make([]*big.Int, d.T+1)
	for i := range zero {
		zero[i] = big.NewInt(0)
	}

	for phase := 1; phase <= 12; phase++ {
		for _, m := range r.ms {
			if m.dead {
				continue
			}
			m.ch.sent = nil
			if d.skips(phase, m.id) {
				m.dead, m.why = true, fmt.Sprintf("PANIC phase %d: Initiate killed the process (panic in a goroutine of the implementation)", phase)
				continue
			}
			// markers for RunChild: which Initiate was running when the process died
			fmt.Fprintf(os.Stderr, "VERIF-INITIATE %d %d\n", phase, m.id)
			st := m.st
			err, panicked := safely(func() error { return st.Initiate(context.Background()) })
			if phase == 12 && err == nil {
				// ComputeGroupPublicKeyShares works in a goroutine that outlives Initiate: step to the
				// finalization state now and wait for the goroutine's result, so that a panic in it is
				// attributed to this member (no messages are exchanged in this phase)
				var nx state.SyncState
				err, _ = safely(func() error {
					var e error
					nx, e = st.Next()
					return e
				})
				if err == nil && nx != nil {
					m.st, m.advanced = nx, true
					if v := r.view(m); v != nil && v.Result != nil {
						m.ps = v.Result.GroupPublicKeyShares()
					}
				} else if err == nil {
					err = fmt.Errorf("no next state")
				}
			}
			fmt.Fprintf(os.Stderr, "VERIF-RETURNED %d %d\n", phase, m.id)
			if err != nil {
				m.dead, m.why = true, fmt.Sprintf("phase %d: %v", phase, err)
				if panicked {
					m.why = "PANIC " + m.why
				}
				m.ch.sent = nil
			}
		}
		if phase == 1 {
			for _, m := range r.ms {
				if v := r.view(m); v != nil {
					for j, kp := range v.EphemeralKeyPairs {
						r.reg.add(uint64(m.id*256+int(j)), kp)
					}
				}
			}
		}
		if phase == 3 {
			for _, m := range r.ms {
				if m.dead {
					continue
				}
				if err := r.recoverPolynomials(m); err != nil {
					return driverError(d, err.Error())
				}
			}
		}
		if phase == 7 {
			for _, m := range r.ms {
				if m.dead {
					continue
				}
				v := r.view(m)
				for k, p := range v.PublicKeySharePoints {
					if g2Key(g2Mul(m.coefA[k])) == g2Key(p) {
						r.g2log[g2Key(p)] = mod(m.coefA[k])
					}
				}
			}
		}
		if sendingPhase[phase] {
			var all []wire
			for _, m := range r.ms {
				if m.corrupt || m.dead {
					continue
				}
				for _, x := range m.ch.sent {
					all = append(all, wire{d.Ops[m.id-1], x, m.id})
				}
			}
			base := map[int][]SymMsg{}
			for _, m := range r.ms {
				if !m.corrupt || m.dead {
					continue
				}
				for _, x := range m.ch.sent {
					s, err := r.lift(m, x)
					if err != nil {
						return driverError(d, err.Error())
					}
					base[m.id] = append(base[m.id], s)
				}
			}
			adv := r.applyAttacks(phase, base)
			for _, s := range adv {
				all = append(all, wire{s.FromOp, r.realise(s), s.Sender})
				r.advCoq[phase] = append(r.advCoq[phase], s.coq())
			}
			honestSeen := 0
			for _, m := range r.ms {
				if m.dead {
					continue
				}
				order := arrivalOrder(all, orderRng.Fork(fmt.Sprintf("p%d-m%d", phase, m.id)), d.Shuffle && !m.corrupt)
				if !m.corrupt {
					if d.Diverge && (phase == 4 || phase == 8) {
						order = diverge(all, order, honestSeen)
					}
					if senders := d.orderFor(phase, m.id); senders != nil {
						order = senderOrder(all, senders)
					}
					honestSeen++
				}
				if !m.corrupt {
					if r.orders[m.id] == nil {
						r.orders[m.id] = map[int][]int{}
					}
					r.orders[m.id][phase] = order
				}
				for _, i := range order {
					w := all[i]
					st := m.st
					err, _ := safely(func() error { return st.Receive(&fakeMsg{w.op, w.payload}) })
					if err != nil {
						m.dead, m.why = true, fmt.Sprintf("phase %d receive: %v", phase, err)
						break
					}
				}
			}
		}
		for _, m := range r.ms {
			if m.dead || m.advanced {
				continue
			}
			st := m.st
			var nx state.SyncState
			err, _ := safely(func() error {
				var e error
				nx, e = st.Next()
				return e
			})
			if err != nil || nx == nil {
				m.dead, m.why = true, fmt.Sprintf("phase %d next: %v", phase, err)
				continue
			}
			m.st = nx
		}
	}
	for _, m := range r.ms {
		if m.coefA == nil {
			m.coefA, m.coefB = zero, zero
		}
	}
	return r.emit()
}

func driverError(d RunDesc, msg string) lib.Case {
	return lib.Case{ID: d.ID, Coq: "DRIVER_ERROR", Key: d.ID, In: d, Out: "driver error: " + msg,
		Sig: map[string]interface{}{"driver_error": true}}
}

type obsMember struct {
	ID        int               `json:"id"`
	Finished  bool              `json:"finished"`
	Why       string            `json:"why,omitempty"`
	IA        []int             `json:"ia"`
	DQ        []int             `json:"dq"`
	Key       string            `json:"key,omitempty"`
	KeyDlogOK bool              `json:"key_dlog_certified"`
	PubShares map[string]string `json:"pubshares_ok,omitempty"`
}

func (r *runner) emit() lib.Case {
	d := r.d
	var honest []*mem
	for _, m := range r.ms {
		if !m.corrupt {
			honest = append(honest, m)
		}
	}
	// ---- observations
	type fin struct {
		v     *gjkr.VerifView
		share *big.Int
		ps    map[group.MemberIndex]*bn256.G2
	}
	fins := map[int]*fin{}
	for _, m := range r.ms {
		if m.dead {
			continue
		}
		v := r.view(m)
		if v == nil || v.Result == nil {
			m.dead, m.why = true, "did not reach the finalization state"
			continue
		}
		ps := m.ps
		if ps == nil {
			ps = v.Result.GroupPublicKeyShares()
		}
		fins[m.id] = &fin{v: v, share: v.Result.GroupPrivateKeyShare, ps: ps}
	}
	kids := map[string]int{}
	var obsCoq []string
	var outs []obsMember
	// candidate for the key dlog: interpolation of the first t+1 honest shares
	var hid []int
	var hsh []*big.Int
	for _, m := range honest {
		if f := fins[m.id]; f != nil && len(hid) < d.T+1 {
			hid = append(hid, m.id)
			hsh = append(hsh, f.share)
		}
	}
	for _, m := range honest {
		f := fins[m.id]
		if f == nil {
			obsCoq = append(obsCoq, fmt.Sprintf("(%d, OFailed)", m.id))
			outs = append(outs, obsMember{ID: m.id, Why: m.why})
			continue
		}
		o := obsMember{ID: m.id, Finished: true, PubShares: map[string]string{}}
		var ia, dq []uint64
		for _, x := range f.v.Result.Group.InactiveMemberIndexes() {
			ia = append(ia, uint64(x))
			o.IA = append(o.IA, int(x))
		}
		for _, x := range f.v.Result.Group.DisqualifiedMemberIndexes() {
			dq = append(dq, uint64(x))
			o.DQ = append(o.DQ, int(x))
		}
		key := f.v.Result.GroupPublicKey
		kb := g2Key(key)
		if _, ok := kids[kb]; !ok {
			kids[kb] = len(kids) + 1
		}
		o.Key = fmt.Sprintf("%x", key.Marshal()[:8])
		// certified discrete log of the group key
		keyTerm := "None"
		var cands []*big.Int
		if len(hid) == d.T+1 {
			cands = append(cands, lagrange0(hid, hsh))
		}
		expl := new(big.Int).Set(m.coefA[0])
		okExpl := true
		for _, pts := range f.v.ValidPoints {
			dl, ok := r.g2log[g2Key(pts[0])]
			if !ok {
				okExpl = false
				break
			}
			expl.Add(expl, dl)
		}
		for _, z := range f.v.ReconstructedPrivateKeys {
			expl.Add(expl, z)
		}
		if okExpl {
			cands = append(cands, mod(expl))
		}
		for _, c := range cands {
			if g2Key(g2Mul(c)) == kb {
				keyTerm = lib.Some(lib.ZBig(mod(c)))
				o.KeyDlogOK = true
				break
			}
		}
		// public key shares
		var psIdx []int
		for j := range f.ps {
			psIdx = append(psIdx, int(j))
		}
		sort.Ints(psIdx)
		var psCoq []string
		for _, j := range psIdx {
			p := f.ps[group.MemberIndex(j)]
			var cs []*big.Int
			if fj := fins[j]; fj != nil {
				cs = append(cs, fj.share)
			}
			// what ComputeGroupPublicKeyShares adds up, in discrete logs
			e := evalPoly(m.coefA, j)
			okE := true
			for qm := range f.v.QualifiedSharesS {
				if pts, ok := f.v.ValidPoints[qm]; ok {
					var dl []*big.Int
					for _, pt := range pts {
						x, ok := r.g2log[g2Key(pt)]
						if !ok {
							okE = false
							break
						}
						dl = append(dl, x)
					}
					if okE {
						e = mod(new(big.Int).Add(e, evalPoly(dl, j)))
					}
				} else if sh, ok := f.v.RevealedShares[qm]; ok {
					if v, ok := sh[group.MemberIndex(j)]; ok {
						e = mod(new(big.Int).Add(e, v))
					} else {
						okE = false
					}
				}
			}
			if okE {
				cs = append(cs, e)
			}
			term := "None"
			o.PubShares[fmt.Sprint(j)] = "unexplained"
			for ci, c := range cs {
				if g2Key(g2Mul(c)) == g2Key(p) {
					term = lib.Some(lib.ZBig(mod(c)))
					o.PubShares[fmt.Sprint(j)] = []string{"share*G2", "explained"}[min(ci, 1)]
					if fins[j] == nil {
						o.PubShares[fmt.Sprint(j)] = "explained"
					}
					break
				}
			}
			psCoq = append(psCoq, fmt.Sprintf("(%d, %s)", j, term))
		}
		obsCoq = append(obsCoq, fmt.Sprintf("(%d, OFinished %s %s %d %s %s %s)", m.id, lib.ListN(ia), lib.ListN(dq),
			kids[kb], keyTerm, lib.ZBig(mod(f.share)), lib.List(psCoq)))
		outs = append(outs, o)
	}
	// ---- the symbolic input
	opsS := make([]string, d.N)
	for i, o := range d.Ops {
		opsS[i] = fmt.Sprint(o)
	}
	zl := func(v []*big.Int) string {
		it := make([]string, len(v))
		for i, x := range v {
			it[i] = zs(x)
		}
		return lib.List(it)
	}
	var hs []string
	for _, m := range honest {
		hs = append(hs, fmt.Sprintf("{| h_id := %d; h_coefA := %s; h_coefB := %s |}", m.id, zl(m.coefA), zl(m.coefB)))
	}
	var ord []string
	for _, m := range honest {
		var per []string
		var phases []int
		for p := range r.orders[m.id] {
			phases = append(phases, p)
		}
		sort.Ints(phases)
		for _, p := range phases {
			it := make([]string, len(r.orders[m.id][p]))
			for i, x := range r.orders[m.id][p] {
				it[i] = lib.Nat(x)
			}
			per = append(per, fmt.Sprintf("(%d, %s)", p, lib.List(it)))
		}
		ord = append(ord, fmt.Sprintf("(%d, %s)", m.id, lib.List(per)))
	}
	adv := func(p int) string { return lib.List(r.advCoq[p]) }
	coq := fmt.Sprintf("{| c_in := {| i_cfg := {| q := bn254_order; gn := %d; gt := %d; csess := 1; ops := %s |}; "+
		"i_honest := %s; i_script := {| adv1 := %s; adv3 := %s; adv4 := %s; adv7 := %s; adv8 := %s; adv10 := %s; order := %s |} |}; "+
		"c_obs := %s |}",
		d.N, d.T, lib.List(opsS), lib.List(hs), adv(1), adv(3), adv(4), adv(7), adv(8), adv(10), lib.List(ord), lib.List(obsCoq))

	var names, phases []string
	effective := 0
	for _, a := range d.Attacks {
		names = append(names, a.Name)
		phases = append(phases, fmt.Sprint(a.Phase))
		if r.applied[attackKey(a)] {
			effective++
		}
	}
	// does a receiver-specific deviation single out another corrupt seat?
	targetsCorrupt := false
	for _, a := range d.Attacks {
		if HonestTargetOnly[a.Name] && r.isCorrupt(a.Target) {
			targetsCorrupt = true
		}
	}
	sig := map[string]interface{}{"attack": strings.Join(names, "+"), "phase": strings.Join(phases, "+"),
		"n_attacks": len(d.Attacks), "corrupt": len(d.Corrupt), "targets_corrupt": targetsCorrupt}
	key := fmt.Sprintf("n%d-t%d-c%v-%v-o%d-%v", d.N, d.T, d.Corrupt, d.Attacks, d.OrderSeed, d.Shuffle)
	if len(d.Orders) > 0 || d.Diverge {
		key += fmt.Sprintf("-%v-%v", d.Orders, d.Diverge)
	}
	return lib.Case{ID: d.ID, Coq: "(" + coq + ")", Key: key, Nontrivial: effective > 0, Sig: sig, In: d,
		Out: map[string]interface{}{"members": outs, "notes": r.notes}}
}

func min(a, b int) int {
	if a < b {
		return a
	}
	return b
}
