// Driver for C01 (beacon DKG: honest members agree on the group key and on who misbehaved).
// The engine, the adversary script and the generators live in ./gjkrdrv (shared with C02).
package main

import "verifharness/cmd/c01/gjkrdrv"

func main() { gjkrdrv.Main() }
