// Driver for C18: feeds generated envelopes to the real libp2p channel's
// processContainerMessage / processPubsubMessage (through the verif-tagged exports) with real
// libp2p key material and records what every registered handler was handed.  The oracles of
// the Coq model (identity decoding, peer IDs, operator keys) are filled from identity.go's own
// Unmarshal (exported) and from libp2p / btcec directly.
package main

import (
	"context"
	"crypto/rsa"
	"crypto/sha256"
	"crypto/x509"
	"encoding/hex"
	"fmt"
	"math/big"
	"os"
	"runtime"
	"strings"
	"sync"
	"time"

	"github.com/btcsuite/btcd/btcec/v2"
	pubsub "github.com/libp2p/go-libp2p-pubsub"
	pubsubpb "github.com/libp2p/go-libp2p-pubsub/pb"
	libp2pcrypto "github.com/libp2p/go-libp2p/core/crypto"
	cryptopb "github.com/libp2p/go-libp2p/core/crypto/pb"
	"github.com/libp2p/go-libp2p/core/peer"
	"google.golang.org/protobuf/proto"

	"github.com/keep-network/keep-core/pkg/net"
	"github.com/keep-network/keep-core/pkg/net/gen/pb"
	"github.com/keep-network/keep-core/pkg/net/libp2p"
	"github.com/keep-network/keep-core/pkg/net/retransmission"

	"verifharness/lib"
)

// ---- replayable input: raw bytes only
type envIn struct {
	From    string `json:"from"` // hex of the peer.ID bytes
	Type    string `json:"type"` // hex
	Payload string `json:"payload"`
	Sender  string `json:"sender"`
	Seqno   uint64 `json:"seqno"`
	Pubsub  bool   `json:"pubsub"`        // go through processPubsubMessage (marshalled container)
	Key     string `json:"key,omitempty"` // pubsub Key field (authors whose ID does not inline the key)
	Note    string `json:"note"`
}
type input struct {
	Registered []string   `json:"registered"` // hex type strings with an unmarshaler
	Envs       []envIn    `json:"envs"`
	Handlers   int        `json:"handlers"`
	Roundtrip  [][]string `json:"roundtrip"` // [peer id hex, marshalled public key hex or ""]
}

// ---- the protocol payload registered by the driver: accepts unless empty or starting with 0xFF
type testPayload struct {
	typ  string
	data []byte
}

func (p *testPayload) Type() string { return p.typ }
func (p *testPayload) Unmarshal(b []byte) error {
	if len(b) == 0 || b[0] == 0xFF {
		return fmt.Errorf("malformed test payload")
	}
	p.data = append([]byte{}, b...)
	return nil
}
func payloadOK(b []byte) bool { return !(len(b) == 0 || b[0] == 0xFF) }

type sentinel struct{}

func (sentinel) TransportSenderID() net.TransportIdentifier { return sid("verif-sentinel") }
func (sentinel) SenderPublicKey() []byte                    { return nil }
func (sentinel) Payload() interface{}                       { return nil }
func (sentinel) Type() string                               { return "verif/sentinel" }
func (sentinel) Seqno() uint64                              { return 0 }

type sid string

func (s sid) String() string { return string(s) }

// ---- interning of byte strings to small identifiers (first occurrence, from 1)
type interner struct{ m map[string]uint64 }

func (i *interner) id(kind string, b []byte) uint64 {
	k := kind + ":" + string(b)
	if v, ok := i.m[k]; ok {
		return v
	}
	v := uint64(len(i.m) + 1)
	i.m[k] = v
	return v
}

type inconclusive struct{ what string }

func unhex(s string) []byte { b, _ := hex.DecodeString(s); return b }

func opKeyBytes(pub libp2pcrypto.PubKey) []byte {
	if pub.Type() != cryptopb.KeyType_Secp256k1 {
		return nil
	}
	raw, err := pub.Raw()
	if err != nil {
		return nil
	}
	k, err := btcec.ParsePubKey(raw)
	if err != nil {
		return nil
	}
	return k.SerializeUncompressed()
}

func runCase(in input, budget time.Duration) (coq string, out []string, sig map[string]interface{}, incon string) {
	defer func() {
		if r := recover(); r != nil {
			if ic, ok := r.(inconclusive); ok {
				incon = ic.what
				return
			}
			panic(r)
		}
	}()
	it := &interner{m: map[string]uint64{}}
	peerByString := map[string][]byte{}
	peerN := func(p peer.ID) uint64 {
		peerByString[p.String()] = []byte(p)
		return it.id("peer", []byte(p))
	}

	ticks := make(chan uint64)
	ticker := retransmission.NewTicker(ticks)
	defer close(ticks)
	ownKey, _, _ := libp2pcrypto.GenerateSecp256k1Key(strings.NewReader(strings.Repeat("verif-c18-own-key", 8)))
	vc, err := libp2p.VerifNewChannel("verif-c18", ownKey, ticker, func([]byte) error { return nil })
	if err != nil {
		panic(err)
	}
	ch := vc.Channel()
	var regN []uint64
	for _, t := range in.Registered {
		typ := string(unhex(t))
		ch.SetUnmarshaler(func() net.TaggedUnmarshaler { return &testPayload{typ: typ} })
		regN = append(regN, it.id("type", []byte(typ)))
	}

	ctx, cancel := context.WithCancel(context.Background())
	defer cancel()
	var mu sync.Mutex
	got := make([][]net.Message, in.Handlers)
	sentinels := 0
	for h := 0; h < in.Handlers; h++ {
		h := h
		ch.Recv(ctx, func(m net.Message) {
			mu.Lock()
			defer mu.Unlock()
			if _, ok := m.(sentinel); ok {
				sentinels++
				return
			}
			got[h] = append(got[h], m)
		})
	}

	errs := make([]bool, len(in.Envs))
	panicked := false
	for i, e := range in.Envs {
		func() {
			defer func() {
				if r := recover(); r != nil {
					panicked = true
					errs[i] = true
					out = append(out, fmt.Sprintf("env %d: PANIC %v", i, r))
				}
			}()
			msg := &pb.BroadcastNetworkMessage{
				Sender: unhex(e.Sender), Payload: unhex(e.Payload), Type: unhex(e.Type), SequenceNumber: e.Seqno,
			}
			var err error
			if e.Pubsub {
				data, merr := proto.Marshal(msg)
				if merr != nil {
					panic(merr)
				}
				pm := &pubsubpb.Message{Data: data, From: unhex(e.From)}
				if e.Key != "" {
					pm.Key = unhex(e.Key)
				}
				err = vc.ProcessPubsubMessage(&pubsub.Message{Message: pm})
			} else {
				err = vc.ProcessContainerMessage(peer.ID(unhex(e.From)), msg)
			}
			errs[i] = err != nil
		}()
	}
	// quiescence: a sentinel handed straight to deliver comes out of every handler's FIFO
	// after everything processContainerMessage delivered before it
	vc.Deliver(sentinel{})
	deadline := time.Now().Add(budget)
	for n := 0; ; n++ {
		mu.Lock()
		done := sentinels == in.Handlers
		mu.Unlock()
		if done {
			break
		}
		if n%64 == 63 && time.Now().After(deadline) {
			panic(inconclusive{"sentinel"})
		}
		runtime.Gosched()
	}
	cancel()

	// ---- oracles and the case term
	var envTerms []string
	nDeliverable := 0
	kinds := map[string]bool{}
	for i, e := range in.Envs {
		from := peer.ID(unhex(e.From))
		fromN := peerN(from)
		typeN := it.id("type", unhex(e.Type))
		payload := "None"
		if payloadOK(unhex(e.Payload)) {
			payload = lib.Some(lib.N(it.id("payload", unhex(e.Payload))))
		}
		inner := "None"
		pid, pub, derr := libp2p.VerifIdentityUnmarshal(unhex(e.Sender))
		match := false
		if derr == nil && pub != nil {
			kb, _ := libp2pcrypto.MarshalPublicKey(pub)
			realPeer, perr := peer.IDFromPublicKey(pub)
			realN := uint64(0)
			if perr == nil {
				realN = peerN(realPeer)
				match = realPeer == from
			}
			op := "None"
			if ob := opKeyBytes(pub); ob != nil {
				op = lib.Some(lib.N(it.id("op", ob)))
			}
			inner = fmt.Sprintf("(Some {| i_key := %d; i_pid := %d; i_peer := %d; i_op := %s |})",
				it.id("key", kb), peerN(pid), realN, op)
		}
		envTerms = append(envTerms, fmt.Sprintf("{| c_from := %d; c_type := %d; c_payload := %s; c_inner := %s; c_seqno := %d |}",
			fromN, typeN, payload, inner, e.Seqno))
		out = append(out, fmt.Sprintf("env %d (%s): err=%v", i, e.Note, errs[i]))
		if !errs[i] {
			nDeliverable++
		}
		kinds[e.Note] = true
		_ = match
	}
	var hTerms []string
	for h := range got {
		var ds []string
		for _, m := range got[h] {
			s := m.TransportSenderID().String()
			var sN uint64
			if raw, ok := peerByString[s]; ok {
				sN = it.id("peer", raw)
			} else {
				sN = it.id("peerstr", []byte(s))
			}
			var pN uint64
			if tp, ok := m.Payload().(*testPayload); ok {
				pN = it.id("payload", tp.data)
			}
			ds = append(ds, fmt.Sprintf("{| d_sender := %d; d_key := %d; d_type := %d; d_seqno := %d; d_payload := %d |}",
				sN, it.id("op", m.SenderPublicKey()), it.id("type", []byte(m.Type())), m.Seqno(), pN))
		}
		if panicked {
			ds = append(ds, "{| d_sender := 0; d_key := 0; d_type := 0; d_seqno := 0; d_payload := 0 |}")
		}
		hTerms = append(hTerms, lib.List(ds))
		out = append(out, fmt.Sprintf("handler %d: %d messages", h, len(got[h])))
	}
	var rts []string
	for _, rt := range in.Roundtrip {
		id := peer.ID(unhex(rt[0]))
		var pub libp2pcrypto.PubKey
		var want libp2pcrypto.PubKey
		if rt[1] != "" {
			pub, _ = libp2pcrypto.UnmarshalPublicKey(unhex(rt[1]))
			want = pub
		} else {
			want, _ = id.ExtractPublicKey()
		}
		wb, _ := libp2pcrypto.MarshalPublicKey(want)
		term := "None"
		func() {
			defer func() { recover() }()
			b, err := libp2p.VerifIdentityMarshal(id, pub)
			if err != nil {
				return
			}
			pid2, pub2, err := libp2p.VerifIdentityUnmarshal(b)
			if err != nil || pub2 == nil {
				return
			}
			kb2, _ := libp2pcrypto.MarshalPublicKey(pub2)
			term = fmt.Sprintf("(Some (%d, %d, %d))", it.id("key", kb2), peerN(pid2), peerN(id))
		}()
		rts = append(rts, fmt.Sprintf("(%d, %s)", it.id("key", wb), term))
	}
	errTerms := make([]string, len(errs))
	for i, b := range errs {
		errTerms[i] = lib.Bool(b)
	}
	coq = fmt.Sprintf("{| c_registered := %s; c_envs := %s; c_errs := %s; c_handlers := %s; c_roundtrip := %s |}",
		lib.ListN(regN), lib.List(envTerms), lib.List(errTerms), lib.List(hTerms), lib.List(rts))
	sig = map[string]interface{}{"handlers": in.Handlers, "delivered": nDeliverable > 0, "panic": panicked}
	return coq, out, sig, ""
}

var nIncon int

func run(in input, em *lib.Emitter, id string) {
	budget := 30 * time.Second
	coq, out, sig, incon := runCase(in, budget)
	if incon != "" {
		coq, out, sig, incon = runCase(in, 4*budget)
		if incon != "" {
			nIncon++
			em.Tally("inconclusive-" + incon)
			return
		}
	}
	notes := map[string]bool{}
	nOK := 0
	for _, e := range in.Envs {
		notes[e.Note] = true
		em.Tally("env-" + e.Note)
		if strings.HasPrefix(e.Note, "ok") {
			nOK++
		}
	}
	key := fmt.Sprintf("%v", in)
	em.Case(lib.Case{ID: id, Coq: coq, Key: key, Nontrivial: len(notes) >= 2 && nOK >= 1 && nOK < len(in.Envs),
		Sig: sig, In: in, Out: out})
}

// ---------------------------------------------------------------- generation

type poolKey struct {
	priv    libp2pcrypto.PrivKey
	pub     libp2pcrypto.PubKey
	id      peer.ID
	idb     []byte // identity bytes (pb.Identity)
	kind    string
	inlined bool // the peer ID is an identity multihash of the key (the key can be extracted from it)
}

type rngReader struct{ r *lib.Rng }

func (rr rngReader) Read(p []byte) (int, error) {
	copy(p, rr.r.Bytes(len(p)))
	return len(p), nil
}

func mkKey(priv libp2pcrypto.PrivKey, pub libp2pcrypto.PubKey, kind string) poolKey {
	id, err := peer.IDFromPublicKey(pub)
	if err != nil {
		panic(err)
	}
	idb, err := libp2p.VerifIdentityMarshal(id, pub)
	if err != nil {
		panic(err)
	}
	_, xerr := id.ExtractPublicKey()
	return poolKey{priv, pub, id, idb, kind, xerr == nil}
}

// A real RSA public key (product of two primes found deterministically from the PRNG;
// crypto/rsa.GenerateKey is deliberately not reproducible).  Its libp2p peer ID is the sha2-256
// multihash of the marshalled key ("Qm..."): the key is NOT recoverable from the ID.
func rsaPrime(r *lib.Rng, bits int) *big.Int {
	one := big.NewInt(1)
	e := big.NewInt(65537)
	for {
		b := r.Bytes(bits / 8)
		b[0] |= 0xC0
		b[len(b)-1] |= 1
		p := new(big.Int).SetBytes(b)
		if !p.ProbablyPrime(20) {
			continue
		}
		if new(big.Int).GCD(nil, nil, new(big.Int).Sub(p, one), e).Cmp(one) != 0 {
			continue
		}
		return p
	}
}

func mkRSA(r *lib.Rng, bits int) poolKey {
	p, q := rsaPrime(r, bits/2), rsaPrime(r, bits/2)
	std := &rsa.PublicKey{N: new(big.Int).Mul(p, q), E: 65537}
	der, err := x509.MarshalPKIXPublicKey(std)
	if err != nil {
		panic(err)
	}
	t := cryptopb.KeyType_RSA
	kb, err := proto.Marshal(&cryptopb.PublicKey{Type: &t, Data: der})
	if err != nil {
		panic(err)
	}
	pub, err := libp2pcrypto.UnmarshalPublicKey(kb)
	if err != nil {
		panic(err)
	}
	k := mkKey(nil, pub, fmt.Sprintf("rsa%d", bits))
	if k.inlined {
		panic("an RSA peer ID inlines its key")
	}
	return k
}

// pool layout: 0-3 secp256k1 operators (inlined IDs), 4 Ed25519 (inlined), 5 ECDSA P-256
// (hashed ID), 6.. the RSA keys of the run (hashed IDs)
const nSecp = 4

func mkPool(r *lib.Rng, rsaKeys []poolKey) []poolKey {
	var pool []poolKey
	for i := 0; i < nSecp; i++ {
		priv, pub, err := libp2pcrypto.GenerateSecp256k1Key(rngReader{r})
		if err != nil {
			panic(err)
		}
		pool = append(pool, mkKey(priv, pub, "secp"))
	}
	priv, pub, err := libp2pcrypto.GenerateEd25519Key(rngReader{r})
	if err != nil {
		panic(err)
	}
	pool = append(pool, mkKey(priv, pub, "ed25519"))
	priv, pub, err = libp2pcrypto.GenerateECDSAKeyPair(rngReader{r})
	if err != nil {
		panic(err)
	}
	pool = append(pool, mkKey(priv, pub, "ecdsa"))
	return append(pool, rsaKeys...)
}

// peer IDs that are close to, but not, the given one: what a sloppy comparison (prefix, length,
// digest only, key bytes only) would confuse with it
func nearID(r *lib.Rng, k poolKey) ([]byte, string) {
	id := []byte(k.id)
	kb, _ := libp2pcrypto.MarshalPublicKey(k.pub)
	switch r.Intn(7) {
	case 0: // proper prefix (at least the multihash header survives when long enough)
		return append([]byte{}, id[:r.Range(1, len(id)-1)]...), "prefix"
	case 1:
		return append(append([]byte{}, id...), r.Bytes(r.Range(1, 4))...), "extended"
	case 2: // one bit off, anywhere
		b := append([]byte{}, id...)
		b[r.Intn(len(b))] ^= byte(1 << uint(r.Intn(8)))
		return b, "bitflip"
	case 3: // last byte off: same header, same length
		b := append([]byte{}, id...)
		b[len(b)-1] ^= byte(1 + r.Intn(255))
		return b, "tail"
	case 4: // sha2-256 multihash of the same marshalled key (well-formed hashed ID, same key)
		h := sha256.Sum256(kb)
		return append([]byte{0x12, 0x20}, h[:]...), "hashed-same-key"
	case 5: // identity multihash of the same raw key bytes under another key type
		raw, _ := k.pub.Raw()
		t := []cryptopb.KeyType{cryptopb.KeyType_Ed25519, cryptopb.KeyType_ECDSA, cryptopb.KeyType_RSA}[r.Intn(3)]
		b, _ := proto.Marshal(&cryptopb.PublicKey{Type: &t, Data: raw})
		return append([]byte{0x00, byte(len(b))}, b...), "retyped-key"
	default: // the bare marshalled key without the multihash header
		return kb, "bare-key"
	}
}

var typeA, typeB = "verif/type-a", "verif/type-b"

func genEnv(r *lib.Rng, pool []poolKey, seqno uint64) envIn {
	e := envIn{Seqno: seqno, Pubsub: r.Chance(1, 4)}
	k := pool[r.Intn(nSecp)] // a secp256k1 author by default
	from := []byte(k.id)
	sender := k.idb
	typ := []byte(typeA)
	if r.Bool() {
		typ = []byte(typeB)
	}
	payload := append([]byte{byte(r.Intn(250))}, r.Bytes(r.Intn(12))...)
	note := "ok"
	switch c := r.Intn(26); {
	case c < 7: // fully valid
		if r.Chance(1, 5) { // unknown protobuf field appended to the identity: still decodes
			sender = append(append([]byte{}, sender...), 0x10, 0x01)
			note = "ok-extra-field"
		}
	case c == 7:
		typ = []byte("verif/unknown-" + fmt.Sprint(r.Intn(3)))
		note = "unknown-type"
	case c == 8:
		typ = [][]byte{{}, {0xff, 0xfe}, []byte("verif/type-a "), []byte("VERIF/TYPE-A")}[r.Intn(4)]
		note = "odd-type"
	case c == 9:
		payload = [][]byte{{}, {0xFF}, {0xFF, 1, 2}}[r.Intn(3)]
		note = "bad-payload"
	case c == 10: // another peer's identity inside
		o := pool[r.Intn(len(pool))]
		for o.id == k.id {
			o = pool[r.Intn(len(pool))]
		}
		sender = o.idb
		note = "mismatch-other-key"
	case c == 11: // authenticated author is someone else (or nobody)
		switch r.Intn(3) {
		case 0:
			from = []byte(pool[(r.Intn(nSecp-1)+1+indexOf(pool, k.id))%nSecp].id)
		case 1:
			from = r.Bytes(r.Range(1, 40))
		default:
			from = nil
		}
		note = "mismatch-author"
	case c == 12: // matching but not an operator key type
		o := pool[nSecp+r.Intn(len(pool)-nSecp)]
		from, sender = []byte(o.id), o.idb
		note = "non-secp-" + o.kind
	case c == 13:
		sender = sender[:r.Intn(len(sender))]
		note = "identity-truncated"
	case c == 14:
		sender = append([]byte{}, sender...)
		sender[r.Intn(len(sender))] ^= byte(1 << uint(r.Intn(8)))
		note = "identity-bitflip"
	case c == 15:
		sender = r.Bytes(r.Intn(80))
		note = "identity-random"
	case c == 16:
		sender, _ = proto.Marshal(&pb.Identity{PubKey: r.Bytes(r.Intn(50))})
		note = "identity-garbage-key"
	case c == 17: // a well-formed secp256k1 key record whose 33 bytes are (almost surely) not a point
		data := append([]byte{byte(2 + r.Intn(2))}, r.Bytes(32)...)
		t := cryptopb.KeyType_Secp256k1
		kb, _ := proto.Marshal(&cryptopb.PublicKey{Type: &t, Data: data})
		sender, _ = proto.Marshal(&pb.Identity{PubKey: kb})
		note = "identity-random-point"
	case c == 18: // right key bytes under the wrong key type
		raw, _ := k.pub.Raw()
		t := []cryptopb.KeyType{cryptopb.KeyType_Ed25519, cryptopb.KeyType_ECDSA, cryptopb.KeyType_RSA}[r.Intn(3)]
		kb, _ := proto.Marshal(&cryptopb.PublicKey{Type: &t, Data: raw})
		sender, _ = proto.Marshal(&pb.Identity{PubKey: kb})
		note = "identity-wrong-key-type"
	case c == 19: // two problems at once
		sender = r.Bytes(r.Intn(40))
		typ = []byte("verif/unknown")
		note = "unknown-type+identity-random"
	case c == 20 || c == 21: // impersonation by an author whose peer ID does not inline its key
		// (sha2-256 "Qm..." ID: RSA, ECDSA): the inner identity is a valid operator's
		var hashed []poolKey
		for _, o := range pool {
			if !o.inlined {
				hashed = append(hashed, o)
			}
		}
		o := hashed[r.Intn(len(hashed))]
		from = []byte(o.id)
		note = "mismatch-hashed-author-" + o.kind
	case c == 22: // impersonation by an author with an inlined key that is not an operator key
		from = []byte(pool[nSecp].id)
		note = "mismatch-" + pool[nSecp].kind + "-author"
	case c == 23 || c == 24: // an author ID that only resembles the inner identity's ID
		var how string
		from, how = nearID(r, k)
		if string(from) == string(k.id) {
			from = append(from, 0)
		}
		note = "mismatch-near-author-" + how
	default: // a non-operator inner identity (any kind) claimed by an operator-keyed author, or by
		// another non-operator author
		o := pool[nSecp+r.Intn(len(pool)-nSecp)]
		sender = o.idb
		if r.Bool() {
			a := pool[nSecp+r.Intn(len(pool)-nSecp)]
			for a.id == o.id {
				a = pool[nSecp+r.Intn(len(pool)-nSecp)]
			}
			from = []byte(a.id)
		}
		note = "mismatch-non-secp-inner"
	}
	// undecodable / non-key identities arrive from every kind of author, not only secp256k1 ones
	if strings.HasPrefix(note, "identity-") && r.Chance(1, 3) {
		from = []byte(pool[r.Intn(len(pool))].id)
	}
	// on the pubsub path an author whose ID does not inline the key ships the key in the message
	if e.Pubsub {
		for _, o := range pool {
			if string(o.id) == string(from) && !o.inlined {
				kb, _ := libp2pcrypto.MarshalPublicKey(o.pub)
				e.Key = hex.EncodeToString(kb)
			}
		}
	}
	e.From, e.Sender, e.Type, e.Payload, e.Note = hex.EncodeToString(from), hex.EncodeToString(sender),
		hex.EncodeToString(typ), hex.EncodeToString(payload), note
	return e
}

func indexOf(pool []poolKey, id peer.ID) int {
	for i, k := range pool {
		if k.id == id {
			return i
		}
	}
	return 0
}

func roundtrips(pool []poolKey) [][]string {
	var rts [][]string
	for _, k := range pool {
		kb, _ := libp2pcrypto.MarshalPublicKey(k.pub)
		rts = append(rts, []string{hex.EncodeToString([]byte(k.id)), hex.EncodeToString(kb)})
		if k.inlined { // identity-hash peer IDs: Marshal can extract the key from the ID
			rts = append(rts, []string{hex.EncodeToString([]byte(k.id)), ""})
		}
	}
	return rts
}

func seqnos(r *lib.Rng, n int) []uint64 {
	seen := map[uint64]bool{}
	var out []uint64
	for len(out) < n {
		var s uint64
		switch r.Intn(6) {
		case 0:
			s = uint64(r.Intn(4))
		case 1:
			s = ^uint64(0) - uint64(r.Intn(3))
		default:
			s = r.U64() >> uint(r.Intn(60))
		}
		if !seen[s] {
			seen[s] = true
			out = append(out, s)
		}
	}
	return out
}

func main() {
	lib.SilenceLogs()
	o := lib.ParseOpts()
	em := lib.NewEmitter()
	if o.Replay != "" {
		var in input
		if err := lib.LoadReplay(o.Replay, &in); err != nil {
			fmt.Fprintln(os.Stderr, err)
			os.Exit(2)
		}
		run(in, em, "replay")
		em.Close("replay", nil)
		return
	}
	rng := lib.NewRng(o.Seed)
	reg := []string{hex.EncodeToString([]byte(typeA)), hex.EncodeToString([]byte(typeB))}

	// --- corpus: one envelope of every kind next to a valid one, fixed key pool
	{
		r := lib.NewRng(18)
		pool := mkPool(r, []poolKey{mkRSA(r.Fork("rsa"), 2048)})
		seen := map[string]bool{}
		var envs []envIn
		sq := seqnos(r, 1500)
		for i := 0; i < 1500; i++ {
			e := genEnv(r, pool, sq[i])
			if !seen[e.Note] {
				seen[e.Note] = true
				envs = append(envs, e)
			}
		}
		run(input{Registered: reg, Envs: envs, Handlers: 2, Roundtrip: roundtrips(pool)}, em, "corpus-all-kinds")
		hx := func(b []byte) string { return hex.EncodeToString(b) }
		// the tampered-sender case of the channel tests: A's envelope published by B
		a, b := pool[0], pool[1]
		run(input{Registered: reg, Handlers: 1, Envs: []envIn{
			{From: hx([]byte(b.id)), Type: reg[0], Payload: "0102", Sender: hx(a.idb), Seqno: 1, Note: "mismatch-author"},
			{From: hx([]byte(a.id)), Type: reg[0], Payload: "0102", Sender: hx(a.idb), Seqno: 1, Note: "ok"},
			{From: hx([]byte(b.id)), Type: reg[0], Payload: "0102", Sender: hx(b.idb), Seqno: 1, Note: "ok"},
		}}, em, "corpus-tampered-sender")
		run(input{Registered: nil, Handlers: 1, Envs: []envIn{
			{From: hx([]byte(a.id)), Type: reg[0], Payload: "0102", Sender: hx(a.idb), Seqno: 7, Note: "unknown-type"},
		}}, em, "corpus-nothing-registered")
		// operator A impersonated by every kind of author libp2p can authenticate: another operator
		// (secp256k1, inlined key), Ed25519 (inlined), ECDSA and RSA-2048 (sha2-256 "Qm..." IDs that
		// do not inline the key), both paths; and by IDs that merely resemble A's (seeded C18a)
		var imp []envIn
		seq := uint64(100)
		for _, o := range pool[1:] {
			for _, ps := range []bool{false, true} {
				e := envIn{From: hx([]byte(o.id)), Type: reg[0], Payload: "0102", Sender: hx(a.idb), Seqno: seq, Pubsub: ps,
					Note: "mismatch-" + o.kind + "-author"}
				if !o.inlined {
					e.Note = "mismatch-hashed-author-" + o.kind
					if ps {
						kb, _ := libp2pcrypto.MarshalPublicKey(o.pub)
						e.Key = hx(kb)
					}
				}
				imp = append(imp, e)
				seq++
			}
		}
		idA := []byte(a.id)
		kbA, _ := libp2pcrypto.MarshalPublicKey(a.pub)
		hA := sha256.Sum256(kbA)
		flipped := append([]byte{}, idA...)
		flipped[len(flipped)-1] ^= 1
		for _, near := range [][]byte{nil, idA[:1], idA[:2], idA[:6], idA[:len(idA)-1], append(append([]byte{}, idA...), 0),
			flipped, append([]byte{0x12, 0x20}, hA[:]...), kbA} {
			imp = append(imp, envIn{From: hx(near), Type: reg[0], Payload: "0102", Sender: hx(a.idb), Seqno: seq, Note: "mismatch-near-author"})
			seq++
		}
		imp = append(imp, envIn{From: hx(idA), Type: reg[0], Payload: "0102", Sender: hx(a.idb), Seqno: seq, Note: "ok"})
		// the non-operator authors speaking for themselves: decoded, matched, refused for the key type
		for _, o := range pool[nSecp:] {
			seq++
			imp = append(imp, envIn{From: hx([]byte(o.id)), Type: reg[0], Payload: "0102", Sender: hx(o.idb), Seqno: seq, Note: "non-secp-" + o.kind})
		}
		run(input{Registered: reg, Handlers: 1, Envs: imp}, em, "corpus-impersonation-by-author-kind")
	}

	rsaKeys := []poolKey{mkRSA(rng.Fork("rsa-a"), 2048), mkRSA(rng.Fork("rsa-b"), 3072)}
	n := o.Count(150, 3000)
	for i := 0; i < n; i++ {
		r := rng.Fork(fmt.Sprintf("case%d", i))
		pool := mkPool(r, rsaKeys)
		ne := r.Range(1, 14)
		if r.Chance(1, 10) {
			ne = r.Range(15, 40)
		}
		sq := seqnos(r, ne)
		var envs []envIn
		for j := 0; j < ne; j++ {
			envs = append(envs, genEnv(r, pool, sq[j]))
		}
		regs := reg
		if r.Chance(1, 8) {
			regs = reg[:1]
		}
		in := input{Registered: regs, Envs: envs, Handlers: r.Range(0, 3)}
		if r.Chance(1, 3) {
			in.Roundtrip = roundtrips(pool)
		}
		run(in, em, fmt.Sprintf("rand-%d", i))
	}
	em.Close("a case is one libp2p channel with 0-3 registered handlers fed a sequence of envelopes through "+
		"processContainerMessage / processPubsubMessage; authenticated authors are secp256k1 / Ed25519 (key inlined in the "+
		"peer ID), ECDSA / RSA-2048 / RSA-3072 (sha2-256 hashed ID), near misses of the inner ID (prefix, extension, bit "+
		"flip, hashed form, retyped key), random bytes and empty, crossed with inner identities of the same peer, of "+
		"another operator, of a non-operator key, and malformed; distinct by the full byte content; non-trivial when it "+
		"mixes at least one deliverable envelope with at least one envelope of another kind",
		map[string]interface{}{"inconclusive": nIncon})
}
