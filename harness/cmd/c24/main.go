// Driver for C24: runs the real coordinationExecutor.executeFollowerRoutine (through the
// verif-tagged export) against a scripted broadcast channel and a block-based cancellation
// (the real withCancelOnBlock with a harness-controlled block counter), and prints the cases
// for the Coq model (Model/C24.v).
//
// A history is a list of events: messages handed to the routine's receive handler one after
// another, and Timeout = the active phase ends (the block counter reaches the window's active
// phase end block, which cancels the routine's context).  Before the Timeout the driver makes
// sure that every earlier message has been consumed by the routine (a sentinel message of a
// foreign payload type reports when the routine asks for its payload), so the order in which
// the routine's select sees the events is exactly the order of the history and no verdict
// depends on timing.  Messages after the Timeout are delivered after the routine returned.
package main

import (
	"context"
	"crypto/ecdsa"
	"fmt"
	"math/big"
	"os"
	"sync"

	"github.com/keep-network/keep-core/pkg/bitcoin"
	"github.com/keep-network/keep-core/pkg/chain"
	"github.com/keep-network/keep-core/pkg/net"
	"github.com/keep-network/keep-core/pkg/protocol/group"
	"github.com/keep-network/keep-core/pkg/tbtc"
	"github.com/keep-network/keep-core/pkg/tecdsa"

	"verifharness/lib"
)

// ---------------------------------------------------------------- input

type message struct {
	Coord   bool   `json:"coord"`  // payload is a coordination message (else a foreign type)
	Sender  uint8  `json:"sender"` // claimed member index
	Key     string `json:"key"`    // address owning the sender public key
	Block   uint64 `json:"block"`
	Wallet  int    `json:"wallet"` // 0 = the coordinated wallet, k>0 = another wallet
	Action  uint8  `json:"action"`
	Pid     uint64 `json:"pid"`
	Timeout bool   `json:"timeout"` // the event is the end of the active phase
	Kind    string `json:"kind"`    // generator label (informative)
}

type input struct {
	Seats   []string  `json:"seats"`   // signingGroupOperators
	Self    string    `json:"self"`    // the follower's operator address
	SelfIdx []uint8   `json:"selfidx"` // membersIndexes handed to the executor (normally the seats of Self)
	Leader  string    `json:"leader"`
	Block   uint64    `json:"block"`
	Allowed []uint8   `json:"allowed"`
	History []message `json:"history"`
}

// ---------------------------------------------------------------- fakes

type fakeSigning struct{ chain.Signing }

// the "public key" of an operator is the bytes of its address
func (fakeSigning) PublicKeyBytesToAddress(pk []byte) chain.Address { return chain.Address(string(pk)) }

type fakeChain struct {
	tbtc.Chain
	s fakeSigning
}

func (f *fakeChain) Signing() chain.Signing { return f.s }

type fakeChannel struct {
	mu         sync.Mutex
	handler    func(net.Message)
	registered chan struct{}
}

func (c *fakeChannel) Name() string { return "verif-c24" }
func (c *fakeChannel) Send(context.Context, net.TaggedMarshaler, ...net.RetransmissionStrategy) error {
	return nil
}
func (c *fakeChannel) Recv(_ context.Context, h func(net.Message)) {
	c.mu.Lock()
	c.handler = h
	c.mu.Unlock()
	close(c.registered)
}
func (c *fakeChannel) SetUnmarshaler(func() net.TaggedUnmarshaler) {}
func (c *fakeChannel) SetFilter(net.BroadcastChannelFilter) error  { return nil }

type tid struct{}

func (tid) String() string { return "verif" }

type fakeMessage struct {
	key      []byte
	payload  interface{}
	onAsked  func()
	askedOne sync.Once
}

func (m *fakeMessage) TransportSenderID() net.TransportIdentifier { return tid{} }
func (m *fakeMessage) SenderPublicKey() []byte                    { return m.key }
func (m *fakeMessage) Payload() interface{} {
	if m.onAsked != nil {
		m.askedOne.Do(m.onAsked)
	}
	return m.payload
}
func (m *fakeMessage) Type() string  { return "verif" }
func (m *fakeMessage) Seqno() uint64 { return 0 }

// proposal with an arbitrary action type and an identity
type proposal struct {
	action tbtc.WalletActionType
	pid    uint64
}

func (p *proposal) ActionType() tbtc.WalletActionType { return p.action }
func (p *proposal) ValidityBlocks() uint64            { return 1 }
func (p *proposal) Marshal() ([]byte, error)          { return nil, nil }
func (p *proposal) Unmarshal([]byte) error            { return nil }

type foreignPayload struct{ n int }

// block counter driving waitForBlockFn
type blocks struct {
	mu      sync.Mutex
	current uint64
	waiters []chan struct{}
}

func (b *blocks) set(n uint64) {
	b.mu.Lock()
	b.current = n
	ws := b.waiters
	b.waiters = nil
	b.mu.Unlock()
	for _, w := range ws {
		close(w)
	}
}
func (b *blocks) waitFor(ctx context.Context, n uint64) error {
	for {
		b.mu.Lock()
		if b.current >= n {
			b.mu.Unlock()
			return nil
		}
		w := make(chan struct{})
		b.waiters = append(b.waiters, w)
		b.mu.Unlock()
		select {
		case <-w:
		case <-ctx.Done():
			return ctx.Err()
		}
	}
}

// ---------------------------------------------------------------- one run

var walletKeys []*ecdsa.PublicKey
var walletHashes [][20]byte

func init() {
	for k := int64(1); k <= 4; k++ {
		x, y := tecdsa.Curve.ScalarBaseMult(big.NewInt(1000 + k).Bytes())
		pk := &ecdsa.PublicKey{Curve: tecdsa.Curve, X: x, Y: y}
		walletKeys = append(walletKeys, pk)
		walletHashes = append(walletHashes, bitcoin.PublicKeyHash(pk))
	}
}

type result struct {
	panicked bool
	panicMsg string
	proposal tbtc.CoordinationProposal
	faults   []tbtc.VerifC24Fault
	err      error
}

func execute(in input) result {
	seats := make([]chain.Address, len(in.Seats))
	for i, s := range in.Seats {
		seats[i] = chain.Address(s)
	}
	fc := &fakeChain{}
	ch := &fakeChannel{registered: make(chan struct{})}
	mv := group.NewMembershipValidator(nil, seats, fc.Signing())
	bc := &blocks{current: in.Block}
	ctx, cancel := tbtc.VerifC24WithCancelOnBlock(
		context.Background(), tbtc.VerifC24ActivePhaseEndBlock(in.Block), bc.waitFor)
	defer cancel()

	allowed := make([]tbtc.WalletActionType, len(in.Allowed))
	for i, a := range in.Allowed {
		allowed[i] = tbtc.WalletActionType(a)
	}
	selfIdx := make([]group.MemberIndex, len(in.SelfIdx))
	for i, s := range in.SelfIdx {
		selfIdx[i] = group.MemberIndex(s)
	}

	done := make(chan result, 1)
	go func() {
		var r result
		defer func() {
			if p := recover(); p != nil {
				r = result{panicked: true, panicMsg: fmt.Sprint(p)}
			}
			done <- r
		}()
		p, f, err := tbtc.VerifC24ExecuteFollowerRoutine(ctx, fc, walletKeys[0], seats, selfIdx,
			chain.Address(in.Self), ch, mv, chain.Address(in.Leader), in.Block, allowed)
		r = result{proposal: p, faults: f, err: err}
	}()

	var res result
	finished := false
	select {
	case <-ch.registered:
	case res = <-done: // returned (panicked) before installing the handler
		finished = true
	}
	deliver := func(m *fakeMessage) {
		ch.mu.Lock()
		h := ch.handler
		ch.mu.Unlock()
		if h != nil {
			h(m)
		}
	}
	props := map[uint64]*proposal{}
	timedOut := false
	for _, ev := range in.History {
		if ev.Timeout {
			if timedOut || finished {
				continue
			}
			timedOut = true
			// every earlier message must have been consumed before the phase ends
			consumed := make(chan struct{})
			deliver(&fakeMessage{key: []byte("sentinel"), payload: &foreignPayload{-1},
				onAsked: func() { close(consumed) }})
			select {
			case <-consumed:
			case res = <-done:
				finished = true
			}
			if !finished {
				bc.set(tbtc.VerifC24ActivePhaseEndBlock(in.Block)) // the active phase ends
				res = <-done
				finished = true
			}
			continue
		}
		var payload interface{}
		if ev.Coord {
			p, ok := props[ev.Pid]
			if !ok {
				p = &proposal{action: tbtc.WalletActionType(ev.Action), pid: ev.Pid}
				props[ev.Pid] = p
			}
			payload = tbtc.VerifC24CoordinationMessage(group.MemberIndex(ev.Sender), ev.Block,
				walletHashes[ev.Wallet%len(walletHashes)], p)
		} else {
			payload = &foreignPayload{int(ev.Pid)}
		}
		deliver(&fakeMessage{key: []byte(ev.Key), payload: payload})
	}
	if !finished {
		// a history without Timeout (not generated): end the phase to stop the routine
		bc.set(tbtc.VerifC24ActivePhaseEndBlock(in.Block))
		res = <-done
	}
	return res
}

func run(in input, em *lib.Emitter, id string) {
	res := execute(in)

	// operator identifiers: seats in first-occurrence order, 0 for addresses backing no seat
	opID := map[string]uint64{}
	for _, s := range in.Seats {
		if _, ok := opID[s]; !ok {
			opID[s] = uint64(len(opID) + 1)
		}
	}
	ids := make([]uint64, len(in.Seats))
	for i, s := range in.Seats {
		ids[i] = opID[s]
	}
	self := make([]uint64, len(in.SelfIdx))
	for i, s := range in.SelfIdx {
		self[i] = uint64(s)
	}
	allowed := make([]int64, len(in.Allowed))
	for i, a := range in.Allowed {
		allowed[i] = int64(a)
	}
	// a leader that backs no seat gets an identifier different from every seat
	leaderID, ok := opID[in.Leader]
	if !ok {
		leaderID = uint64(len(opID) + 1000)
	}
	cfg := fmt.Sprintf("{| f_seats := %s; f_self := %s; f_leader := %s; f_block := %s; f_wallet := 1%%N; f_allowed := %s |}",
		lib.ListN(ids), lib.ListN(self), lib.N(leaderID), lib.ZU(in.Block), lib.ListZ(allowed))

	var evs []string
	kinds := map[string]bool{}
	nMsgs := 0
	for _, ev := range in.History {
		if ev.Timeout {
			evs = append(evs, "Timeout")
			continue
		}
		nMsgs++
		kinds[ev.Kind] = true
		em.Tally("msg-" + ev.Kind)
		evs = append(evs, fmt.Sprintf(
			"Msg {| m_coord := %s; m_sender := %s; m_op := %s; m_block := %s; m_wallet := %s; m_action := %s; m_pid := %s |}",
			lib.Bool(ev.Coord), lib.N(uint64(ev.Sender)), lib.N(opID[ev.Key]), lib.ZU(ev.Block),
			lib.N(uint64(ev.Wallet%len(walletHashes))+1), lib.Z(int64(ev.Action)), lib.N(ev.Pid)))
	}

	pid := "None"
	outPid := interface{}(nil)
	if res.proposal != nil {
		if p, ok := res.proposal.(*proposal); ok {
			pid = lib.Some(lib.N(p.pid))
			outPid = p.pid
		} else {
			pid = lib.Some(lib.N(0)) // a proposal no message carried
			outPid = "foreign proposal"
		}
	}
	var faults []string
	var outFaults []string
	for _, f := range res.faults {
		faults = append(faults, fmt.Sprintf("{| culprit := %s; ftype := %s |}",
			lib.N(opID[string(f.Culprit)]), lib.Z(int64(f.FaultType))))
		outFaults = append(outFaults, fmt.Sprintf("%s:%d", f.Culprit, f.FaultType))
	}
	if res.panicked {
		em.Tally("out-panic")
	} else if res.proposal != nil {
		em.Tally("out-accepted")
	} else {
		em.Tally("out-timed-out")
	}
	for _, f := range res.faults {
		em.Tally(fmt.Sprintf("fault-type-%d", f.FaultType))
	}
	obs := fmt.Sprintf("{| o_panic := %s; o_pid := %s; o_faults := %s; o_err := %s |}",
		lib.Bool(res.panicked), pid, lib.List(faults), lib.Bool(res.err != nil))
	coq := fmt.Sprintf("{| k_cfg := %s; k_hist := %s; k_out := %s |}", cfg, lib.List(evs), obs)

	leaderSeats := 0
	for _, s := range in.Seats {
		if s == in.Leader {
			leaderSeats++
		}
	}
	em.Tally(fmt.Sprintf("history-len-%02d", min(nMsgs, 40)))
	em.Case(lib.Case{
		ID:         id,
		Coq:        coq,
		Key:        coq,
		Nontrivial: nMsgs >= 2 && len(kinds) >= 2,
		Sig: map[string]interface{}{"fn": "follower", "leader_seats": leaderSeats,
			"accepted": res.proposal != nil, "panic": res.panicked},
		In: in,
		Out: map[string]interface{}{"panic": res.panicMsg, "proposal": outPid, "faults": outFaults,
			"err": fmt.Sprint(res.err)},
	})
}

func min(a, b int) int {
	if a < b {
		return a
	}
	return b
}

// ---------------------------------------------------------------- generation

func addr(r *lib.Rng) string {
	const hexd = "0123456789abcdefABCDEF"
	b := make([]byte, 40)
	for i := range b {
		b[i] = hexd[r.Intn(len(hexd))]
	}
	return "0x" + string(b)
}

func seatsOf(seats []string, o string) []uint8 {
	var out []uint8
	for i, s := range seats {
		if s == o {
			out = append(out, uint8(i+1))
		}
	}
	return out
}

type world struct {
	in      input
	ops     []string
	outside string
	nextPid uint64
}

func (w *world) pid() uint64 { w.nextPid++; return w.nextPid }

func pick(r *lib.Rng, l []uint8) uint8 {
	if len(l) == 0 {
		return 0
	}
	return l[r.Intn(len(l))]
}

func (w *world) allowedAction(r *lib.Rng) uint8 {
	if len(w.in.Allowed) == 0 {
		return 0
	}
	return w.in.Allowed[r.Intn(len(w.in.Allowed))]
}
func (w *world) disallowedAction(r *lib.Rng) uint8 {
	for try := 0; try < 20; try++ {
		a := uint8(r.Intn(8))
		okA := true
		for _, x := range w.in.Allowed {
			if x == a {
				okA = false
			}
		}
		if okA {
			return a
		}
	}
	return 200
}

// gen builds one message of the given kind
func (w *world) gen(r *lib.Rng, kind string) message {
	in := w.in
	leaderSeats := seatsOf(in.Seats, in.Leader)
	lowest := uint8(0)
	if len(leaderSeats) > 0 {
		lowest = leaderSeats[0]
	}
	m := message{Coord: true, Sender: lowest, Key: in.Leader, Block: in.Block, Wallet: 0,
		Action: w.allowedAction(r), Pid: w.pid(), Kind: kind}
	other := func() string { // an operator that is neither leader nor (if possible) self
		for try := 0; try < 20; try++ {
			o := w.ops[r.Intn(len(w.ops))]
			if o != in.Leader && (o != in.Self || try > 10) {
				return o
			}
		}
		return in.Self
	}
	switch kind {
	case "leader-valid":
	case "leader-disallowed":
		m.Action = w.disallowedAction(r)
	case "leader-other-seat": // the leader sends from a seat of his that is not the lowest
		if len(leaderSeats) > 1 {
			m.Sender = leaderSeats[1+r.Intn(len(leaderSeats)-1)]
		} else {
			m.Action = w.disallowedAction(r)
			m.Kind = "leader-disallowed"
		}
	case "other-own-seat": // another operator proposes under its own seat
		o := other()
		m.Key, m.Sender = o, pick(r, seatsOf(in.Seats, o))
		if r.Bool() {
			m.Action = w.disallowedAction(r)
		}
	case "other-claims-leader-seat": // another operator uses the leader's member index
		m.Key = other()
		if m.Key == in.Leader {
			m.Key = w.outside
		}
	case "leader-claims-other-seat":
		m.Sender = pick(r, seatsOf(in.Seats, other()))
	case "outsider": // a key backing no seat
		m.Key = w.outside
		if r.Bool() {
			m.Sender = uint8(r.Intn(len(in.Seats) + 2))
		}
	case "wrong-block":
		m.Block = in.Block + []uint64{1, 900, ^uint64(0), 100}[r.Intn(4)]
		if r.Chance(1, 3) {
			o := other()
			m.Key, m.Sender = o, pick(r, seatsOf(in.Seats, o))
		}
	case "wrong-wallet":
		m.Wallet = 1 + r.Intn(3)
		if r.Chance(1, 3) {
			o := other()
			m.Key, m.Sender = o, pick(r, seatsOf(in.Seats, o))
		}
	case "foreign-type":
		m.Coord = false
	case "from-self":
		m.Key, m.Sender = in.Self, pick(r, in.SelfIdx)
	case "self-index-claimed": // somebody else uses one of the follower's member indexes
		m.Sender = pick(r, in.SelfIdx)
		if r.Bool() {
			m.Key = other()
		}
	case "index-out-of-range":
		m.Sender = []uint8{0, uint8(len(in.Seats) + 1), 255, uint8(len(in.Seats) + 7)}[r.Intn(4)]
		if r.Bool() {
			m.Key = other()
		}
	default: // "random": every field drawn independently
		m.Coord = !r.Chance(1, 10)
		m.Sender = uint8(r.Intn(len(in.Seats) + 2))
		keys := append(append([]string{}, w.ops...), w.outside)
		m.Key = keys[r.Intn(len(keys))]
		if r.Chance(1, 5) {
			m.Block = in.Block + uint64(r.Intn(3))
		}
		if r.Chance(1, 5) {
			m.Wallet = r.Intn(3)
		}
		m.Action = uint8(r.Intn(8))
	}
	return m
}

var kinds = []string{"leader-valid", "leader-disallowed", "leader-other-seat", "other-own-seat",
	"other-claims-leader-seat", "leader-claims-other-seat", "outsider", "wrong-block", "wrong-wallet",
	"foreign-type", "from-self", "self-index-claimed", "index-out-of-range", "random"}

var checklists = [][]uint8{
	{3, 0},             // Redemption, Noop
	{3, 2, 5, 4, 0},    // every fourth window
	{3, 1, 0},          // with heartbeat
	{3, 2, 5, 4, 1, 0}, // everything
}

func newWorld(r *lib.Rng, nOps, nSeats int, leaderSeats int) *world {
	w := &world{}
	for i := 0; i < nOps; i++ {
		w.ops = append(w.ops, addr(r))
	}
	w.outside = addr(r)
	leader, self := w.ops[0], w.ops[1%nOps]
	seats := []string{}
	for i := 0; i < leaderSeats; i++ {
		seats = append(seats, leader)
	}
	for _, o := range w.ops[1:] {
		seats = append(seats, o)
	}
	for len(seats) < nSeats {
		o := w.ops[r.Intn(nOps)]
		if o == leader && r.Chance(2, 3) {
			continue
		}
		seats = append(seats, o)
	}
	p := r.Perm(len(seats))
	sh := make([]string, len(seats))
	for i, j := range p {
		sh[i] = seats[j]
	}
	w.in = input{Seats: sh, Self: self, SelfIdx: seatsOf(sh, self), Leader: leader,
		Block: 900 * uint64(r.Range(1, 100000)), Allowed: checklists[r.Intn(len(checklists))]}
	if r.Chance(1, 12) { // arbitrary allowed set
		w.in.Allowed = nil
		for a := uint8(0); a < 6; a++ {
			if r.Bool() {
				w.in.Allowed = append(w.in.Allowed, a)
			}
		}
	}
	return w
}

func (w *world) history(r *lib.Rng, n int, validAt int, timeoutAt int) {
	var h []message
	for i := 0; i < n; i++ {
		if i == timeoutAt {
			h = append(h, message{Timeout: true})
		}
		var m message
		switch {
		case i == validAt:
			m = w.gen(r, "leader-valid")
		case len(h) > 0 && r.Chance(1, 8): // retransmission of an earlier message
			m = h[r.Intn(len(h))]
			if m.Timeout {
				m = w.gen(r, "random")
			} else {
				m.Kind = "duplicate"
			}
		default:
			k := kinds[1+r.Intn(len(kinds)-1)]
			if r.Chance(1, 25) {
				k = "leader-valid"
			}
			m = w.gen(r, k)
		}
		h = append(h, m)
	}
	if timeoutAt >= n || timeoutAt < 0 {
		h = append(h, message{Timeout: true})
	}
	w.in.History = h
}

func main() {
	o := lib.ParseOpts()
	em := lib.NewEmitter()
	if o.Replay != "" {
		var in input
		if err := lib.LoadReplay(o.Replay, &in); err != nil {
			fmt.Fprintln(os.Stderr, err)
			os.Exit(2)
		}
		run(in, em, "replay")
		em.Close("replay", nil)
		return
	}
	rng := lib.NewRng(o.Seed)

	// --- corpus
	{
		r := lib.NewRng(24)
		w := newWorld(r, 3, 10, 4)
		f2 := w.ops[2]
		one := func(id string, ms ...message) {
			w.in.History = append(append([]message{}, ms...), message{Timeout: true})
			run(w.in, em, id)
		}
		one("corpus-silence")
		one("corpus-valid", w.gen(r, "leader-valid"))
		// the scenario of the repository's own test
		one("corpus-repo-test", w.gen(r, "foreign-type"), w.gen(r, "from-self"), w.gen(r, "leader-claims-other-seat"),
			w.gen(r, "wrong-block"), w.gen(r, "wrong-wallet"), w.gen(r, "other-own-seat"),
			w.gen(r, "leader-disallowed"), w.gen(r, "leader-valid"), w.gen(r, "leader-valid"))
		one("corpus-leader-second-seat", w.gen(r, "leader-other-seat"))
		one("corpus-only-impersonators", w.gen(r, "other-own-seat"), w.gen(r, "other-own-seat"), w.gen(r, "other-claims-leader-seat"))
		d := w.gen(r, "leader-disallowed")
		one("corpus-duplicated-mistake", d, d, d)
		v := w.gen(r, "leader-valid")
		w.in.History = []message{w.gen(r, "other-own-seat"), {Timeout: true}, v}
		run(w.in, em, "corpus-valid-after-timeout")
		w.in.History = []message{{Timeout: true}, {Timeout: true}, v}
		run(w.in, em, "corpus-two-timeouts")
		// a leader that backs no seat: membersByOperator(leader)[0] panics
		w2 := newWorld(r, 3, 6, 1)
		w2.in.Leader = w2.outside
		w2.in.History = []message{{Timeout: true}}
		run(w2.in, em, "corpus-leader-not-an-operator")
		// the follower is handed the leader's own indexes (never done by coordinate())
		w3 := newWorld(r, 3, 8, 2)
		w3.in.Self, w3.in.SelfIdx = w3.in.Leader, seatsOf(w3.in.Seats, w3.in.Leader)
		w3.in.History = []message{w3.gen(r, "leader-valid"), {Timeout: true}}
		run(w3.in, em, "corpus-follower-is-leader")
		_ = f2
	}

	// --- small scope: every ordered pair / triple of message kinds, leader with 1 and 3 seats
	nSmall := o.Count(250, 3000)
	combos := [][]string{}
	for _, a := range kinds {
		for _, b := range kinds {
			combos = append(combos, []string{a, b})
		}
	}
	for _, a := range kinds[:10] {
		for _, b := range kinds[:10] {
			for _, c := range kinds[:4] {
				combos = append(combos, []string{a, b, c})
			}
		}
	}
	perm := rng.Fork("small").Perm(len(combos))
	for i := 0; i < nSmall && i < len(combos); i++ {
		r := rng.Fork(fmt.Sprintf("small%d", i))
		w := newWorld(r, r.Range(2, 4), r.Range(4, 8), 1+2*(i%2))
		var h []message
		for _, k := range combos[perm[i]] {
			h = append(h, w.gen(r, k))
		}
		w.in.History = append(h, message{Timeout: true})
		run(w.in, em, fmt.Sprintf("small-%d", i))
	}

	// --- random histories
	nRand := o.Count(550, 8000)
	for i := 0; i < nRand; i++ {
		r := rng.Fork(fmt.Sprintf("rand%d", i))
		nOps := r.Range(2, 8)
		nSeats := r.Range(nOps+1, 24)
		if r.Chance(1, 10) {
			nSeats = 100
		}
		w := newWorld(r, nOps, nSeats, r.Range(1, 4))
		n := r.Range(0, 12)
		if r.Chance(1, 10) {
			n = r.Range(12, 60)
		}
		validAt := -1
		if r.Chance(2, 3) && n > 0 {
			validAt = r.Intn(n)
		}
		timeoutAt := -1
		if r.Chance(1, 5) && n > 0 {
			timeoutAt = r.Intn(n)
		}
		w.history(r, n, validAt, timeoutAt)
		run(w.in, em, fmt.Sprintf("rand-%d", i))
	}
	em.Close("a case is one run of executeFollowerRoutine over a scripted history of received messages and the end "+
		"of the active phase; distinct by the whole canonical case; non-trivial when the history has >= 2 "+
		"messages of >= 2 different kinds", nil)
}
