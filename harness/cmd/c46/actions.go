// Fakes for running the real wallet actions' execute() up to (and into) the signing step:
// a Bridge/host chain and a Bitcoin chain that answer exactly what the four transaction
// actions ask before they sign, a block counter on the scripted clock, and thin wrappers around
// the hooks.
package main

import (
	"context"
	"crypto/sha256"
	"encoding/binary"
	"fmt"
	"math/big"
	"time"

	"github.com/keep-network/keep-core/pkg/bitcoin"
	"github.com/keep-network/keep-core/pkg/chain"
	"github.com/keep-network/keep-core/pkg/tbtc"
)

func verifWithCancelOnBlock(ctx context.Context, block uint64, wait func(context.Context, uint64) error) (context.Context, context.CancelFunc) {
	return tbtc.VerifC46WithCancelOnBlock(ctx, block, wait)
}

func runSignTx(wait func(context.Context, uint64) error, start, timeout uint64,
	report func(ctx context.Context, startBlock uint64) error) error {
	return tbtc.VerifC46SignTransaction(wait, start, timeout, report)
}

func runHeartbeat(wait func(context.Context, uint64) error, start, expiry uint64, prior uint, active int,
	reportSign func(ctx context.Context, startBlock uint64) error, reportClaim func(ctx context.Context) error) error {
	return tbtc.VerifC46RunHeartbeat(hbChain{}, walletKey.ToECDSA(), start, expiry, wait, prior, active, reportSign, reportClaim)
}

// ---- Bitcoin chain ----

type btcFake struct {
	bitcoin.Chain // nil: any call the actions are not known to make panics (recovered by the driver)
	txs           map[bitcoin.Hash]*bitcoin.Transaction
	walletTxs     []bitcoin.Hash
	walletUtxos   []*bitcoin.UnspentTransactionOutput
}

func (c *btcFake) add(tx *bitcoin.Transaction) bitcoin.Hash {
	h := tx.Hash()
	c.txs[h] = tx
	return h
}
func (c *btcFake) GetTransaction(h bitcoin.Hash) (*bitcoin.Transaction, error) {
	tx, ok := c.txs[h]
	if !ok {
		return nil, fmt.Errorf("transaction not found")
	}
	return tx, nil
}
func (c *btcFake) GetTransactionConfirmations(bitcoin.Hash) (uint, error) { return 100, nil }
func (c *btcFake) GetTxHashesForPublicKeyHash([20]byte) ([]bitcoin.Hash, error) {
	return c.walletTxs, nil
}
func (c *btcFake) GetUtxosForPublicKeyHash([20]byte) ([]*bitcoin.UnspentTransactionOutput, error) {
	return c.walletUtxos, nil
}
func (c *btcFake) GetMempoolUtxosForPublicKeyHash([20]byte) ([]*bitcoin.UnspentTransactionOutput, error) {
	return nil, nil
}

// ---- host chain ----

type clockCounter struct {
	chain.BlockCounter
	w *world
}

func (c clockCounter) CurrentBlock() (uint64, error) {
	c.w.mu.Lock()
	defer c.w.mu.Unlock()
	return c.w.block, nil
}

// WaitForBlockHeight: simulated time passes until the block is there.
func (c clockCounter) WaitForBlockHeight(b uint64) error {
	c.w.mu.Lock()
	cur := c.w.block
	c.w.mu.Unlock()
	if b > cur {
		c.w.setBlock(b)
	}
	return nil
}

type bridgeFake struct {
	tbtc.Chain  // nil, see btcFake
	w           *world
	wallet      *tbtc.WalletChainData
	deposits    map[string]*tbtc.DepositRevealedEvent
	redemptions map[string]*tbtc.RedemptionRequest
}

func depositKey(h bitcoin.Hash, i uint32) string { return fmt.Sprintf("%x/%d", h[:], i) }

func mainUtxoHash(u *bitcoin.UnspentTransactionOutput) [32]byte {
	var b [44]byte
	copy(b[:32], u.Outpoint.TransactionHash[:])
	binary.BigEndian.PutUint32(b[32:], u.Outpoint.OutputIndex)
	binary.BigEndian.PutUint64(b[36:], uint64(u.Value))
	return sha256.Sum256(b[:])
}

func (b *bridgeFake) GetWallet([20]byte) (*tbtc.WalletChainData, error) { return b.wallet, nil }
func (b *bridgeFake) ComputeMainUtxoHash(u *bitcoin.UnspentTransactionOutput) [32]byte {
	return mainUtxoHash(u)
}
func (b *bridgeFake) BlockCounter() (chain.BlockCounter, error) { return clockCounter{w: b.w}, nil }
func (b *bridgeFake) PastDepositRevealedEvents(*tbtc.DepositRevealedEventFilter) ([]*tbtc.DepositRevealedEvent, error) {
	var evs []*tbtc.DepositRevealedEvent
	for _, e := range b.deposits {
		evs = append(evs, e)
	}
	return evs, nil
}
func (b *bridgeFake) GetDepositRequest(h bitcoin.Hash, i uint32) (*tbtc.DepositChainRequest, bool, error) {
	if _, ok := b.deposits[depositKey(h, i)]; ok {
		return &tbtc.DepositChainRequest{}, true, nil
	}
	return nil, false, nil
}
func (b *bridgeFake) ValidateDepositSweepProposal([20]byte, *tbtc.DepositSweepProposal, []struct {
	*tbtc.Deposit
	FundingTx *bitcoin.Transaction
}) error {
	return nil
}
func (b *bridgeFake) ValidateRedemptionProposal([20]byte, *tbtc.RedemptionProposal) error { return nil }
func (b *bridgeFake) GetPendingRedemptionRequest(_ [20]byte, script bitcoin.Script) (*tbtc.RedemptionRequest, bool, error) {
	r, ok := b.redemptions[string(script)]
	return r, ok, nil
}
func (b *bridgeFake) ValidateMovingFundsProposal([20]byte, *bitcoin.UnspentTransactionOutput, *tbtc.MovingFundsProposal) error {
	return nil
}
func (b *bridgeFake) GetMovingFundsParameters() (uint64, uint64, uint32, uint32, *big.Int, uint32, uint16, uint64,
	uint32, *big.Int, uint32, error) {
	return 10000, 1000, 3600, 7 * 24 * 3600, big.NewInt(0), 100, 0, 10000, 7 * 24 * 3600, big.NewInt(0), 100, nil
}
func (b *bridgeFake) PastMovingFundsCommitmentSubmittedEvents(*tbtc.MovingFundsCommitmentSubmittedEventFilter) (
	[]*tbtc.MovingFundsCommitmentSubmittedEvent, error) {
	return nil, nil
}
func (b *bridgeFake) ValidateMovedFundsSweepProposal([20]byte, *tbtc.MovedFundsSweepProposal) error {
	return nil
}

// runTxAction builds a small valid world for the action type (a wallet with a registered main
// UTXO on both chains, one deposit / redemption request / target wallet / moved funds output)
// and runs the production action's execute() with the scripted waiter; report is the signing
// executor.
func runTxAction(w *world, action string, start, expiry uint64,
	report func(ctx context.Context, startBlock uint64) error) error {
	pub := walletKey.ToECDSA()
	pkh := bitcoin.PublicKeyHash(pub)
	walletScript, err := bitcoin.PayToWitnessPublicKeyHash(pkh)
	if err != nil {
		return err
	}
	dummyIn := func(tag byte) []*bitcoin.TransactionInput {
		return []*bitcoin.TransactionInput{{
			Outpoint: &bitcoin.TransactionOutpoint{TransactionHash: bitcoin.Hash{tag, 1, 2, 3}, OutputIndex: 0},
			Sequence: 0xffffffff,
		}}
	}
	btc := &btcFake{txs: map[bitcoin.Hash]*bitcoin.Transaction{}}
	// the wallet's previous transaction: its main UTXO
	prev := &bitcoin.Transaction{Version: 1, Inputs: dummyIn(1),
		Outputs: []*bitcoin.TransactionOutput{{Value: 5_000_000, PublicKeyScript: walletScript}}}
	prevHash := btc.add(prev)
	mainUtxo := &bitcoin.UnspentTransactionOutput{
		Outpoint: &bitcoin.TransactionOutpoint{TransactionHash: prevHash, OutputIndex: 0}, Value: 5_000_000}
	btc.walletTxs = []bitcoin.Hash{prevHash}
	btc.walletUtxos = []*bitcoin.UnspentTransactionOutput{mainUtxo}
	bridge := &bridgeFake{w: w,
		wallet: &tbtc.WalletChainData{
			MainUtxoHash:                           mainUtxoHash(mainUtxo),
			MovingFundsRequestedAt:                 time.Now().Add(-30 * 24 * time.Hour),
			MovingFundsTargetWalletsCommitmentHash: [32]byte{1},
		},
		deposits: map[string]*tbtc.DepositRevealedEvent{}, redemptions: map[string]*tbtc.RedemptionRequest{}}

	var proposal interface{}
	switch action {
	case "deposit-sweep":
		ev := &tbtc.DepositRevealedEvent{
			Depositor:           "0x934b98637ca318a4d6e7ca6ffd1690b8e77df637",
			Amount:              1_000_000,
			BlindingFactor:      [8]byte{0xf9, 0xf0, 0xc9, 0x0d, 0x00, 0x03, 0x95, 0x23},
			WalletPublicKeyHash: pkh,
			RefundPublicKeyHash: [20]byte{0x28, 0xe0, 0x81, 0xf2, 0x85},
			RefundLocktime:      [4]byte{0x60, 0xbc, 0xea, 0x61},
			BlockNumber:         1000,
		}
		script, err := (&tbtc.Deposit{Depositor: ev.Depositor, BlindingFactor: ev.BlindingFactor,
			WalletPublicKeyHash: ev.WalletPublicKeyHash, RefundPublicKeyHash: ev.RefundPublicKeyHash,
			RefundLocktime: ev.RefundLocktime}).Script()
		if err != nil {
			return err
		}
		p2wsh, err := bitcoin.PayToWitnessScriptHash(bitcoin.WitnessScriptHash(script))
		if err != nil {
			return err
		}
		funding := &bitcoin.Transaction{Version: 1, Inputs: dummyIn(2),
			Outputs: []*bitcoin.TransactionOutput{{Value: 1_000_000, PublicKeyScript: p2wsh}}}
		ev.FundingTxHash, ev.FundingOutputIndex = btc.add(funding), 0
		bridge.deposits[depositKey(ev.FundingTxHash, 0)] = ev
		proposal = &tbtc.DepositSweepProposal{
			DepositsKeys: []struct {
				FundingTxHash      bitcoin.Hash
				FundingOutputIndex uint32
			}{{ev.FundingTxHash, 0}},
			SweepTxFee:           big.NewInt(2000),
			DepositsRevealBlocks: []*big.Int{big.NewInt(1000)},
		}
	case "redemption":
		redeemerScript, err := bitcoin.PayToWitnessPublicKeyHash([20]byte{7, 7, 7})
		if err != nil {
			return err
		}
		bridge.redemptions[string(redeemerScript)] = &tbtc.RedemptionRequest{
			Redeemer: "0x82883a4c7a8dd73ef165deb402d432613615ced4", RedeemerOutputScript: redeemerScript,
			RequestedAmount: 600_000, TreasuryFee: 1000, TxMaxFee: 10_000, RequestedAt: time.Now().Add(-time.Hour)}
		proposal = &tbtc.RedemptionProposal{
			RedeemersOutputScripts: []bitcoin.Script{redeemerScript}, RedemptionTxFee: big.NewInt(2000)}
	case "moving-funds":
		proposal = &tbtc.MovingFundsProposal{
			TargetWallets: [][20]byte{{9, 9, 9}, {8, 8, 8}}, MovingFundsTxFee: big.NewInt(2000)}
	case "moved-funds-sweep":
		moved := &bitcoin.Transaction{Version: 1, Inputs: dummyIn(3),
			Outputs: []*bitcoin.TransactionOutput{{Value: 700_000, PublicKeyScript: walletScript}}}
		proposal = &tbtc.MovedFundsSweepProposal{
			MovingFundsTxHash: btc.add(moved), MovingFundsTxOutputIndex: 0, SweepTxFee: big.NewInt(2000)}
	default:
		return fmt.Errorf("unknown action %q", action)
	}
	return tbtc.VerifC46ExecuteAction(bridge, btc, pub, proposal, start, expiry, w.wait, report)
}
