// Deadline ENFORCEMENT cases of C46: is the context derived by withCancelOnBlock really closed
// when the block arrives / the block waiter fails / the parent is done.
//
// Everything is in scripted block terms. The world is a block clock advanced by the driver and a
// scripted waitForBlockFn:
//
//	ok        returns nil once the clock shows the block it was asked for
//	err k     returns an error once the clock shows (clock at the call) + k   (k = 0: at once)
//	hang      never returns by itself
//
// every pending waiter returns nil when its context is done (as node.waitForBlockHeight does) or
// when the case is over. The waiter signals that it has been called, that it has looked at the
// clock after every tick, and that it has returned: these are the positive events the driver
// waits for. After the arming and after every scripted step the driver records whether the waiter
// has returned and whether the derived context is closed:
//
//	closed      ctx.Err() != nil — a positive observation
//	still-open  only after the goroutine started by withCancelOnBlock is GONE (the goroutine
//	            count is back to the count before the arming plus the waiters still pending —
//	            also a positive observation), the context still not being closed after a further
//	            grace wait, retried once with a 4x budget (DESIGN §3)
//	no event    if neither the waiter has returned nor the parent was cancelled there is nothing
//	            to wait for: ctx.Err() is read after a bounded runtime.Gosched loop
//
// If neither observation can be made within a generous bound the case is Inconclusive: it is
// retried once and then skipped and counted (never a verdict).
package main

import (
	"context"
	"errors"
	"fmt"
	"os"
	"runtime"
	"strings"
	"sync"
	"sync/atomic"
	"time"

	"verifharness/lib"
)

type wmode struct {
	Kind string `json:"kind"` // ok | err | hang
	K    uint64 `json:"k,omitempty"`
}

func (m wmode) coq() string {
	switch m.Kind {
	case "ok":
		return "WOk"
	case "err":
		return fmt.Sprintf("(WErrAfter %s)", lib.ZU(m.K))
	}
	return "WHang"
}

type dstep struct {
	Adv    uint64 `json:"adv,omitempty"`
	Cancel bool   `json:"cancel,omitempty"`
}

func stepsCoq(steps []dstep) string {
	s := make([]string, len(steps))
	for i, d := range steps {
		if d.Cancel {
			s[i] = "SCancelParent"
		} else {
			s[i] = fmt.Sprintf("(SAdvance %s)", lib.ZU(d.Adv))
		}
	}
	return lib.List(s)
}

var errBlockCounter = errors.New("verif: block counter unavailable")
var errInconclusive = errors.New("verif: inconclusive")

const (
	retNone int32 = iota
	retNil
	retErr
)

// wcall is one call of the scripted waitForBlockFn.
type wcall struct {
	target uint64
	armed  uint64 // clock at the call
	mode   wmode
	ret    atomic.Int32
	seen   atomic.Uint64 // last clock epoch this waiter has looked at
}

type world struct {
	mu      sync.Mutex
	block   uint64
	epoch   uint64
	tick    chan struct{} // closed and replaced on every clock change
	release chan struct{} // closed when the case is over
	modes   []wmode       // mode of the i-th call; further calls: pending until the case is over
	calls   []*wcall
	base    int // goroutines before the case
}

// idleGoroutines is the goroutine count of the driver between cases (set by main after a warm-up).
var idleGoroutines = -1

// settleGoroutines waits until the goroutine count has not changed for a while (the waiters of
// earlier cases have left) and returns it.
func settleGoroutines() int {
	last, since := runtime.NumGoroutine(), time.Now()
	for deadline := time.Now().Add(2 * time.Second); time.Now().Before(deadline); {
		runtime.Gosched()
		time.Sleep(200 * time.Microsecond)
		if n := runtime.NumGoroutine(); n != last {
			last, since = n, time.Now()
		} else if time.Since(since) > 30*time.Millisecond {
			break
		}
	}
	return last
}

func newWorld(block uint64, modes ...wmode) *world {
	// the waiters released at the end of the previous case may still be on their way out
	if idleGoroutines < 0 {
		idleGoroutines = settleGoroutines()
	} else {
		await(2*time.Second, func() bool { return runtime.NumGoroutine() <= idleGoroutines })
	}
	return &world{block: block, tick: make(chan struct{}), release: make(chan struct{}), modes: modes,
		base: runtime.NumGoroutine()}
}

func (w *world) finish() { close(w.release) }

func (w *world) setBlock(b uint64) {
	w.mu.Lock()
	w.block = b
	w.epoch++
	old := w.tick
	w.tick = make(chan struct{})
	w.mu.Unlock()
	close(old)
}

func (w *world) call(i int) *wcall {
	w.mu.Lock()
	defer w.mu.Unlock()
	if i < len(w.calls) {
		return w.calls[i]
	}
	return nil
}

func (w *world) pending() int {
	w.mu.Lock()
	defer w.mu.Unlock()
	n := 0
	for _, c := range w.calls {
		if c.ret.Load() == retNone {
			n++
		}
	}
	return n
}

// wait is the scripted waitForBlockFn.
func (w *world) wait(ctx context.Context, target uint64) error {
	w.mu.Lock()
	c := &wcall{target: target, armed: w.block, mode: wmode{Kind: "hang"}}
	if len(w.calls) < len(w.modes) {
		c.mode = w.modes[len(w.calls)]
	}
	w.calls = append(w.calls, c)
	w.mu.Unlock()
	for {
		w.mu.Lock()
		b, ep, tick := w.block, w.epoch, w.tick
		w.mu.Unlock()
		switch {
		case c.mode.Kind == "ok" && b >= c.target:
			c.ret.Store(retNil)
			return nil
		case c.mode.Kind == "err" && b >= c.armed+c.mode.K:
			c.ret.Store(retErr)
			return errBlockCounter
		}
		c.seen.Store(ep + 1)
		select {
		case <-tick:
		case <-ctx.Done():
			c.ret.Store(retNil)
			return nil
		case <-w.release:
			c.ret.Store(retNil)
			return nil
		}
	}
}

// await spins (runtime.Gosched, then short sleeps) until cond holds; false = not within the bound.
func await(bound time.Duration, cond func() bool) bool {
	for i := 0; i < 2000; i++ {
		if cond() {
			return true
		}
		runtime.Gosched()
	}
	deadline := time.Now().Add(bound)
	for time.Now().Before(deadline) {
		if cond() {
			return true
		}
		time.Sleep(50 * time.Microsecond)
	}
	return cond()
}

// classify decides closed / still-open after a closing event is known to have happened.
func (w *world) classify(ctx context.Context, bound time.Duration) (bool, error) {
	gone := func() bool { return runtime.NumGoroutine() <= w.base+w.pending() }
	if !await(bound, func() bool { return ctx.Err() != nil || gone() }) {
		return false, errInconclusive
	}
	if ctx.Err() != nil {
		return true, nil
	}
	// the arming goroutine is gone and the context is not closed: grace, retried once
	for _, grace := range []time.Duration{20 * time.Millisecond, 80 * time.Millisecond} {
		for i := 0; i < 500; i++ {
			if ctx.Err() != nil {
				return true, nil
			}
			runtime.Gosched()
		}
		select {
		case <-ctx.Done():
			return true, nil
		case <-time.After(grace):
		}
		if !gone() {
			return w.classify(ctx, bound)
		}
	}
	return ctx.Err() != nil, nil
}

type cobs struct {
	Ret    string `json:"ret"` // none | nil | err
	Closed bool   `json:"closed"`
}

func (o cobs) coq() string {
	r := map[string]string{"none": "NotReturned", "nil": "RetNil", "err": "RetErr"}[o.Ret]
	return fmt.Sprintf("{| o_ret := %s; o_closed := %s |}", r, lib.Bool(o.Closed))
}

// scriptResult is what one run of a script on one derived context gives.
type scriptResult struct {
	Armed     uint64  `json:"armed"`
	Target    *uint64 `json:"target"` // block the waiter was asked for; nil = never armed
	SignStart *uint64 `json:"signStart,omitempty"`
	Obs       []cobs  `json:"obs"`
	Note      string  `json:"note,omitempty"`
}

// awaitCall waits for the i-th call of the scripted waiter. The deadline is armed once the
// goroutine of withCancelOnBlock has called it; if no goroutine that could still call it exists
// (the goroutine count is what it was before the case plus the pending waiters), it never will
// be: (nil, nil).
func (w *world) awaitCall(i int, bound time.Duration) (*wcall, error) {
	quiet := 0
	ok := await(bound, func() bool {
		if w.call(i) != nil {
			return true
		}
		if runtime.NumGoroutine() <= w.base+w.pending() {
			quiet++
		} else {
			quiet = 0
		}
		return quiet > 2040 // the whole Gosched phase of await and 40 sleeping polls
	})
	if c := w.call(i); c != nil {
		return c, nil
	}
	if !ok {
		return nil, errInconclusive
	}
	return nil, nil
}

// observe runs the script on ctx, the context derived by the focus-th waiter call.
func (w *world) observe(ctx context.Context, focus int, steps []dstep, cancelParent func(), bound time.Duration) (scriptResult, error) {
	var res scriptResult
	c, err := w.awaitCall(focus, bound)
	if err != nil {
		return res, err
	}
	if c == nil {
		res.Note = "the waiter was never called: no deadline armed"
		return res, nil
	}
	res.Armed, res.Target = c.armed, &c.target
	parentDone := false
	look := func() error {
		// the waiter has looked at the current clock (or returned)
		w.mu.Lock()
		ep := w.epoch
		w.mu.Unlock()
		if !await(bound, func() bool { return c.ret.Load() != retNone || c.seen.Load() > ep }) {
			return errInconclusive
		}
		o := cobs{Ret: [...]string{"none", "nil", "err"}[c.ret.Load()]}
		if o.Ret != "none" || parentDone {
			closed, err := w.classify(ctx, bound)
			if err != nil {
				return err
			}
			o.Closed = closed
		} else {
			for i := 0; i < 200; i++ {
				runtime.Gosched()
			}
			o.Closed = ctx.Err() != nil
			o.Ret = [...]string{"none", "nil", "err"}[c.ret.Load()]
		}
		res.Obs = append(res.Obs, o)
		return nil
	}
	if err := look(); err != nil {
		return res, err
	}
	for _, d := range steps {
		if d.Cancel {
			if cancelParent == nil {
				return res, fmt.Errorf("script cancels a parent that does not exist")
			}
			cancelParent()
			parentDone = true
			// the pending waiter returns nil when its context is done
			if !await(bound, func() bool { return c.ret.Load() != retNone }) {
				return res, errInconclusive
			}
		} else {
			w.setBlock(d.Adv)
		}
		if err := look(); err != nil {
			return res, err
		}
	}
	return res, nil
}

// armerIn says who arms the deadline.
type armerIn struct {
	Kind      string `json:"kind"` // prim | signtx | hbsign | hbclaim | exec
	Action    string `json:"action,omitempty"`
	Target    uint64 `json:"target,omitempty"`    // prim
	HasParent bool   `json:"hasParent,omitempty"` // prim
	Start     uint64 `json:"start,omitempty"`
	Expiry    uint64 `json:"expiry,omitempty"` // signtx: the timeout block
}

func (a armerIn) coq() string {
	switch a.Kind {
	case "prim":
		return fmt.Sprintf("(APrim %s %s)", lib.ZU(a.Target), lib.Bool(a.HasParent))
	case "signtx":
		return fmt.Sprintf("(ASignTx %s %s)", lib.ZU(a.Start), lib.ZU(a.Expiry))
	case "hbsign":
		return fmt.Sprintf("(AHbSign %s %s)", lib.ZU(a.Start), lib.ZU(a.Expiry))
	case "hbclaim":
		return fmt.Sprintf("(AHbClaim %s %s)", lib.ZU(a.Start), lib.ZU(a.Expiry))
	}
	return fmt.Sprintf("(AExec %s %s %s)", actionCoq[a.Action], lib.ZU(a.Start), lib.ZU(a.Expiry))
}

type enforceIn struct {
	Armer armerIn `json:"armer"`
	Clock uint64  `json:"clock"` // block clock when the action / helper is started
	Mode  wmode   `json:"mode"`
	Steps []dstep `json:"steps"`
}

func stepsSig(in enforceIn) string {
	var sb strings.Builder
	for _, d := range in.Steps {
		if d.Cancel {
			sb.WriteByte('c')
		} else {
			sb.WriteByte('a')
		}
	}
	return sb.String()
}

// runEnforceOnce runs one enforcement case against the real code.
func runEnforceOnce(in enforceIn, bound time.Duration) (res scriptResult, panicked string, err error) {
	defer func() {
		if r := recover(); r != nil {
			panicked = fmt.Sprint(r)
		}
	}()
	a := in.Armer
	var w *world
	inner := func(focus int) func(ctx context.Context, startBlock uint64) error {
		return func(ctx context.Context, startBlock uint64) error {
			s := startBlock
			res, err = w.observe(ctx, focus, in.Steps, nil, bound)
			res.SignStart = &s
			return errStop
		}
	}
	switch a.Kind {
	case "prim":
		w = newWorld(in.Clock, in.Mode)
		defer w.finish()
		parent, cancelParent := context.Background(), context.CancelFunc(nil)
		if a.HasParent {
			parent, cancelParent = context.WithCancel(context.Background())
			defer cancelParent()
		}
		ctx, cancel := verifWithCancelOnBlock(parent, a.Target, w.wait)
		defer cancel()
		res, err = w.observe(ctx, 0, in.Steps, cancelParent, bound)
	case "signtx":
		w = newWorld(in.Clock, in.Mode)
		defer w.finish()
		runSignTx(w.wait, a.Start, a.Expiry, inner(0))
	case "hbsign":
		w = newWorld(in.Clock, in.Mode)
		defer w.finish()
		runHeartbeat(w.wait, a.Start, a.Expiry, 2, 60, inner(0), func(context.Context) error { return nil })
	case "hbclaim":
		// the signing deadline is armed with a waiter that stays pending; the claim deadline
		// (second call) with the scripted one
		w = newWorld(in.Clock, wmode{Kind: "hang"}, in.Mode)
		defer w.finish()
		runHeartbeat(w.wait, a.Start, a.Expiry, 2, 60,
			func(context.Context, uint64) error {
				// the signing deadline's waiter call comes first (it is made by a goroutine)
				c, e := w.awaitCall(0, bound)
				if c == nil {
					err = e // nil: never armed — the claim stub then reports what it sees
				}
				return nil
			},
			func(ctx context.Context) error {
				res, err = w.observe(ctx, 1, in.Steps, nil, bound)
				return errStop
			})
	case "exec":
		w = newWorld(in.Clock, in.Mode)
		defer w.finish()
		execErr := runTxAction(w, a.Action, a.Start, a.Expiry, inner(0))
		if res.SignStart == nil && err == nil {
			res.Note = fmt.Sprint("execute() ended before signing: ", execErr)
		}
	default:
		err = fmt.Errorf("unknown armer kind %q", a.Kind)
	}
	return
}

func optZp(p *uint64) string {
	if p == nil {
		return "None"
	}
	return lib.Some(lib.ZU(*p))
}

func runEnforce(in enforceIn, em *lib.Emitter, id string) {
	t0 := time.Now()
	defer func() {
		if os.Getenv("C46_TIMING") != "" {
			fmt.Fprintf(os.Stderr, "TIMING %s %s %v %d steps: %v\n", id, in.Armer.Kind, in.Mode, len(in.Steps), time.Since(t0))
		}
	}()
	res, panicked, err := runEnforceOnce(in, 10*time.Second)
	if errors.Is(err, errInconclusive) {
		res, panicked, err = runEnforceOnce(in, 40*time.Second)
	}
	label := "enforce-" + in.Armer.Kind
	if in.Armer.Kind == "exec" {
		label += "-" + in.Armer.Action
	}
	if errors.Is(err, errInconclusive) {
		em.Tally(label + "-inconclusive-skipped")
		return
	}
	if err != nil {
		panicked += " driver: " + err.Error()
	}
	if panicked != "" {
		// an impossible observation: closed before anything happened and the executor not run
		res = scriptResult{Armed: in.Clock, Note: "panic: " + panicked}
	}
	obs := make([]string, len(res.Obs))
	anyFault, anyClosed := in.Mode.Kind == "err", false
	for i, o := range res.Obs {
		obs[i] = o.coq()
		anyClosed = anyClosed || o.Closed
	}
	armed := res.Armed
	if res.Target == nil {
		armed = in.Clock
	}
	coq := fmt.Sprintf("(CEnforce %s %s %s %s %s %s %s)", in.Armer.coq(), lib.ZU(armed), in.Mode.coq(),
		stepsCoq(in.Steps), optZp(res.SignStart), optZp(res.Target), lib.List(obs))
	em.Tally(label + "-" + in.Mode.Kind)
	sig := map[string]interface{}{"fn": "enforce", "armer": in.Armer.Kind, "action": in.Armer.Action, "mode": in.Mode.Kind}
	em.Case(lib.Case{ID: id, Coq: coq,
		Key:        fmt.Sprintf("enforce|%+v|%d|%+v|%+v", in.Armer, in.Clock, in.Mode, in.Steps),
		Nontrivial: anyFault || (anyClosed && len(in.Steps) > 0), Sig: sig, In: input{Fn: "enforce", Enforce: &in},
		Out: map[string]interface{}{"result": res, "panic": panicked}})
}

// genSteps scripts a clock walk around the interesting blocks.
func genSteps(r *lib.Rng, clock, target uint64, m wmode, hasParent bool) []dstep {
	pts := map[uint64]bool{}
	add := func(b uint64) {
		if b > clock {
			pts[b] = true
		}
	}
	add(clock + 1)
	add(target - 1)
	add(target)
	add(target + 1 + uint64(r.Intn(50)))
	if m.Kind == "err" {
		add(clock + m.K - 1)
		add(clock + m.K)
		add(clock + m.K + 1)
	}
	for i := r.Intn(3); i > 0; i-- {
		add(clock + uint64(r.Intn(700)))
	}
	var bs []uint64
	for b := range pts {
		if b-clock < 1<<40 { // no wrapped points
			bs = append(bs, b)
		}
	}
	for i := 1; i < len(bs); i++ {
		for j := i; j > 0 && bs[j-1] > bs[j]; j-- {
			bs[j-1], bs[j] = bs[j], bs[j-1]
		}
	}
	// keep a random subset, in order
	var steps []dstep
	for _, b := range bs {
		if r.Chance(3, 4) {
			steps = append(steps, dstep{Adv: b})
		}
	}
	if hasParent && r.Chance(2, 3) {
		i := r.Intn(len(steps) + 1)
		steps = append(steps[:i], append([]dstep{{Cancel: true}}, steps[i:]...)...)
		if r.Chance(1, 4) {
			steps = append(steps, dstep{Cancel: true})
		}
	}
	return steps
}

func genMode(r *lib.Rng, clock, target uint64) wmode {
	switch r.Intn(8) {
	case 0, 1:
		return wmode{Kind: "ok"}
	case 2, 3:
		return wmode{Kind: "err"} // at once
	case 4, 5:
		span := uint64(2)
		if target > clock+2 && target-clock < 1<<40 {
			span = target - clock
		}
		return wmode{Kind: "err", K: 1 + uint64(r.Intn(int(span)))}
	case 6:
		return wmode{Kind: "err", K: uint64(r.Intn(900))} // possibly after the deadline block
	}
	return wmode{Kind: "hang"}
}
