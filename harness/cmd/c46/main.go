// Driver for C46: reads the deadline-related values out of the real wallet actions and runs
// the real signing / heartbeat steps with executors that only report what they are called
// with (hook pkg/tbtc/verif_export_c46.go):
//
//	static    the four transaction actions built by their production constructors for a
//	          (start, expiry): ValidityBlocks(), safety margin, broadcast timeout / check delay,
//	          and the signing loop length computed as in signingExecutor.sign
//	start     coordinationWindow.endBlock() (the action start used by processCoordinationResult)
//	sign      walletTransactionExecutor.signTransaction: start block handed to signBatch and the
//	          block at which the signing context is cancelled
//	heartbeat heartbeatAction.execute(): signing start, signing context block, claim context block
//	enforce   is the deadline ENFORCED: withCancelOnBlock itself, signTransaction, the heartbeat's
//	          signing / claim contexts and the four transaction actions' execute() run end to end
//	          on fake chains, all with a scripted block clock and a scripted (possibly failing)
//	          waitForBlockFn; observable = closed / still-open after every scripted event
//	          (enforce.go, actions.go)
//
// The "block at which a context is cancelled" is observed through the injected waitForBlockFn
// (withCancelOnBlock calls it with that block); nothing depends on wall-clock time.
package main

import (
	"context"
	"errors"
	"fmt"
	"math/big"
	"os"
	"time"

	"github.com/btcsuite/btcd/btcec/v2"
	"github.com/keep-network/keep-core/pkg/chain"
	"github.com/keep-network/keep-core/pkg/tbtc"

	"verifharness/lib"
)

type input struct {
	Fn     string `json:"fn"`     // static | start | sign | heartbeat
	Action string `json:"action"` // deposit-sweep | redemption | moving-funds | moved-funds-sweep | heartbeat
	Start  uint64 `json:"start"`
	Expiry uint64 `json:"expiry"`
	Prior  uint   `json:"prior"`  // heartbeat: consecutive failures already counted
	Active int    `json:"active"` // heartbeat: members active during signing

	Enforce *enforceIn `json:"enforce,omitempty"` // fn = enforce: see enforce.go
	Loop    *loopIn    `json:"loop,omitempty"`    // fn = loop: see loop.go
}

var actionTypes = map[string]tbtc.WalletActionType{
	"deposit-sweep": tbtc.ActionDepositSweep, "redemption": tbtc.ActionRedemption,
	"moving-funds": tbtc.ActionMovingFunds, "moved-funds-sweep": tbtc.ActionMovedFundsSweep,
}
var actionCoq = map[string]string{
	"deposit-sweep": "DepositSweep", "redemption": "Redemption", "moving-funds": "MovingFunds",
	"moved-funds-sweep": "MovedFundsSweep", "heartbeat": "Heartbeat",
}
var txActions = []string{"deposit-sweep", "redemption", "moving-funds", "moved-funds-sweep"}

var errStop = errors.New("verif: stop after reporting")

// generous bound on waiting for a positive signal of the fakes; beyond it a case is skipped as
// inconclusive, never judged
const waitBound = 30 * time.Second

type hbChain struct {
	tbtc.Chain
}

func (hbChain) OperatorToStakingProvider() (chain.Address, bool, error) { return "0xabc", true, nil }
func (hbChain) EligibleStake(chain.Address) (*big.Int, error)           { return big.NewInt(1000), nil }
func (hbChain) ValidateHeartbeatProposal([20]byte, *tbtc.HeartbeatProposal) error {
	return nil
}

var walletKey = func() *btcec.PublicKey {
	_, pub := btcec.PrivKeyFromBytes([]byte{1, 2, 3, 4, 5, 6, 7, 8, 9, 10, 11, 12, 13, 14, 15, 16,
		17, 18, 19, 20, 21, 22, 23, 24, 25, 26, 27, 28, 29, 30, 31, 32})
	return pub
}()

func optZ(p *uint64) string {
	if p == nil {
		return "None"
	}
	return lib.Some(lib.ZU(*p))
}

func run(in input, em *lib.Emitter, id string) {
	sig := map[string]interface{}{"fn": in.Fn, "action": in.Action}
	if in.Fn == "enforce" {
		if in.Enforce == nil {
			fmt.Fprintln(os.Stderr, "enforce case without a script")
			os.Exit(2)
		}
		runEnforce(*in.Enforce, em, id)
		return
	}
	if in.Fn == "loop" {
		if in.Loop == nil {
			fmt.Fprintln(os.Stderr, "loop case without a script")
			os.Exit(2)
		}
		runLoop(*in.Loop, em, id)
		return
	}
	switch in.Fn {
	case "static":
		var t tbtc.VerifC46ActionTimings
		var ok bool
		var limit, attempt uint
		var loop uint64
		panicked := ""
		func() {
			defer func() {
				if r := recover(); r != nil {
					panicked = fmt.Sprint(r)
				}
			}()
			t, ok = tbtc.VerifC46NewActionTimings(actionTypes[in.Action], in.Start, in.Expiry)
			limit, attempt, loop = tbtc.VerifC46SigningLoopBlocks()
		}()
		if !ok || panicked != "" {
			// reported as an impossible observation (validity 0 with a huge margin)
			t = tbtc.VerifC46ActionTimings{SafetyMarginBlocks: 1 << 62}
		}
		coq := fmt.Sprintf("(CStatic %s %s %s {| s_validity := %s; s_offset := %s; s_bt := %s; s_cd := %s; "+
			"s_start := %s; s_expiry := %s; s_limit := %s; s_attempt := %s; s_loop := %s |})",
			actionCoq[in.Action], lib.ZU(in.Start), lib.ZU(in.Expiry),
			lib.ZU(t.ValidityBlocks), lib.ZU(t.SafetyMarginBlocks), lib.Z(int64(t.BroadcastTimeout)),
			lib.Z(int64(t.BroadcastCheckDelay)), lib.ZU(t.StartBlock), lib.ZU(t.ExpiryBlock),
			lib.ZU(uint64(limit)), lib.ZU(uint64(attempt)), lib.ZU(loop))
		em.Tally("static-" + in.Action)
		em.Case(lib.Case{ID: id, Coq: coq, Key: fmt.Sprintf("static|%s|%d|%d", in.Action, in.Start, in.Expiry),
			Nontrivial: in.Expiry == in.Start+t.ValidityBlocks, Sig: sig, In: in,
			Out: map[string]interface{}{"timings": t, "attemptsLimit": limit, "attemptMaxBlocks": attempt,
				"loopBlocks": loop, "panic": panicked}})
	case "start":
		end := tbtc.VerifC46WindowEndBlock(in.Start)
		em.Tally("start")
		em.Case(lib.Case{ID: id, Coq: fmt.Sprintf("(CStart %s %s)", lib.ZU(in.Start), lib.ZU(end)),
			Key: fmt.Sprintf("start|%d", in.Start), Nontrivial: in.Start%900 == 0 && in.Start > 0, Sig: sig, In: in, Out: end})
	case "sign":
		w := newWorld(in.Start) // every waiter call stays pending until the case is over
		var ss, se uint64
		var err, werr error
		armed := false
		panicked := ""
		func() {
			defer func() {
				if r := recover(); r != nil {
					panicked = fmt.Sprint(r)
				}
			}()
			err = tbtc.VerifC46SignTransaction(w.wait, in.Start, in.Expiry,
				func(ctx context.Context, startBlock uint64) error {
					ss = startBlock
					var c *wcall
					if c, werr = w.awaitCall(0, waitBound); c != nil {
						se, armed = c.target, true // the block the signing context is cancelled at
					}
					return errStop
				})
		}()
		w.finish()
		if werr != nil {
			em.Tally("sign-inconclusive-skipped")
			return
		}
		if panicked != "" || err == nil || !armed {
			ss, se = 0, ^uint64(0) // impossible observation
		}
		em.Tally("sign")
		em.Case(lib.Case{ID: id, Coq: fmt.Sprintf("(CSign %s %s %s %s)", lib.ZU(in.Start), lib.ZU(in.Expiry), lib.ZU(ss), lib.ZU(se)),
			Key: fmt.Sprintf("sign|%d|%d", in.Start, in.Expiry), Nontrivial: in.Start < in.Expiry, Sig: sig, In: in,
			Out: map[string]interface{}{"signStart": ss, "signCtxBlock": se, "armed": armed, "panic": panicked, "err": fmt.Sprint(err)}})
	default: // heartbeat
		w := newWorld(in.Start)
		var ss, se, ce *uint64
		var err, werr error
		panicked := ""
		func() {
			defer func() {
				if r := recover(); r != nil {
					panicked = fmt.Sprint(r)
				}
			}()
			err = tbtc.VerifC46RunHeartbeat(hbChain{}, walletKey.ToECDSA(), in.Start, in.Expiry, w.wait, in.Prior, in.Active,
				func(ctx context.Context, startBlock uint64) error {
					s := startBlock
					ss = &s
					c, e := w.awaitCall(0, waitBound)
					if c != nil {
						b := c.target
						se = &b
					}
					werr = e
					return nil
				},
				func(ctx context.Context) error {
					c, e := w.awaitCall(1, waitBound)
					if c != nil {
						b := c.target
						ce = &b
					}
					if werr == nil {
						werr = e
					}
					return nil
				})
		}()
		w.finish()
		if werr != nil {
			em.Tally("heartbeat-inconclusive-skipped")
			return
		}
		res := "HbOk"
		if panicked != "" {
			res = "HbPanic"
		} else if err != nil {
			res = "HbErr"
		}
		coq := fmt.Sprintf("(CHeartbeat %s %s (hb_claims %s %s) {| h_sign_start := %s; h_sign_end := %s; h_claim_end := %s; h_result := %s |})",
			lib.ZU(in.Start), lib.ZU(in.Expiry), lib.ZU(uint64(in.Prior)), lib.Z(int64(in.Active)), optZ(ss), optZ(se), optZ(ce), res)
		em.Tally("heartbeat-" + res)
		if ce != nil {
			em.Tally("heartbeat-claims")
		}
		em.Case(lib.Case{ID: id, Coq: coq, Key: fmt.Sprintf("heartbeat|%d|%d|%d|%d", in.Start, in.Expiry, in.Prior, in.Active),
			Nontrivial: ce != nil, Sig: sig, In: in,
			Out: map[string]interface{}{"signStart": ss, "signCtxBlock": se, "claimCtxBlock": ce, "result": res,
				"err": fmt.Sprint(err), "panic": panicked}})
	}
}

func randStart(r *lib.Rng) uint64 {
	switch r.Intn(6) {
	case 0:
		return uint64(r.Intn(2000))
	case 1:
		return ^uint64(0) - uint64(r.Intn(3000))
	case 2:
		return r.U64()
	default: // the end of a coordination window on a live chain
		return tbtc.VerifC46WindowEndBlock((16_000 + uint64(r.Intn(20_000))) * 900)
	}
}

func main() {
	o := lib.ParseOpts()
	em := lib.NewEmitter()
	if o.Replay != "" {
		var in input
		if err := lib.LoadReplay(o.Replay, &in); err != nil {
			fmt.Fprintln(os.Stderr, err)
			os.Exit(2)
		}
		run(in, em, "replay")
		em.Close("replay", nil)
		return
	}
	rng := lib.NewRng(o.Seed)
	hbValidity := tbtc.VerifC46HeartbeatValidityBlocks()
	validity := map[string]uint64{}
	for _, a := range txActions {
		t, _ := tbtc.VerifC46NewActionTimings(actionTypes[a], 0, 0)
		validity[a] = t.ValidityBlocks
	}

	// --- does the signing executor obey the deadline (first: the rest test wants a quiet process)
	genLoops(o, rng.Fork("loops"), em)

	// --- corpus: every action at the end of a real coordination window, expiry as node.go sets it
	start := tbtc.VerifC46WindowEndBlock(20_000_700)
	for _, a := range txActions {
		run(input{Fn: "static", Action: a, Start: start, Expiry: start + validity[a]}, em, "corpus-static-"+a)
	}
	run(input{Fn: "start", Start: 20_000_700}, em, "corpus-start")
	run(input{Fn: "sign", Start: start, Expiry: start + 900}, em, "corpus-sign")
	run(input{Fn: "heartbeat", Action: "heartbeat", Start: start, Expiry: start + hbValidity, Prior: 2, Active: 60}, em, "corpus-heartbeat-claim")
	run(input{Fn: "heartbeat", Action: "heartbeat", Start: start, Expiry: start + hbValidity, Prior: 1, Active: 60}, em, "corpus-heartbeat-below-threshold")
	run(input{Fn: "heartbeat", Action: "heartbeat", Start: start, Expiry: start + hbValidity, Prior: 5, Active: 70}, em, "corpus-heartbeat-success")
	run(input{Fn: "heartbeat", Action: "heartbeat", Start: 0, Expiry: 299, Prior: 2, Active: 60}, em, "corpus-heartbeat-invalid-expiry")
	run(input{Fn: "heartbeat", Action: "heartbeat", Start: 0, Expiry: 300, Prior: 2, Active: 60}, em, "corpus-heartbeat-edge-expiry")

	n := o.Count(120, 1500)
	for i := 0; i < n; i++ {
		r := rng.Fork(fmt.Sprintf("static%d", i))
		a := txActions[i%len(txActions)]
		s := randStart(r)
		e := s + validity[a]
		if r.Chance(1, 5) {
			e = r.U64()
		}
		run(input{Fn: "static", Action: a, Start: s, Expiry: e}, em, fmt.Sprintf("static-%d", i))
	}
	for i := 0; i < o.Count(60, 600); i++ {
		r := rng.Fork(fmt.Sprintf("start%d", i))
		cb := uint64(r.Intn(40_000)) * 900
		if r.Chance(1, 4) {
			cb = r.U64() >> 2
		}
		run(input{Fn: "start", Start: cb}, em, fmt.Sprintf("start-%d", i))
	}
	for i := 0; i < o.Count(100, 1000); i++ {
		r := rng.Fork(fmt.Sprintf("sign%d", i))
		s := randStart(r)
		a := txActions[r.Intn(len(txActions))]
		t, _ := tbtc.VerifC46NewActionTimings(actionTypes[a], s, s+validity[a])
		e := t.ExpiryBlock - t.SafetyMarginBlocks // what the action would pass
		if r.Chance(1, 4) {
			e = r.U64()
		}
		run(input{Fn: "sign", Action: a, Start: s, Expiry: e}, em, fmt.Sprintf("sign-%d", i))
	}
	for i := 0; i < o.Count(200, 2000); i++ {
		r := rng.Fork(fmt.Sprintf("hb%d", i))
		s := randStart(r)
		e := s + hbValidity
		switch r.Intn(8) {
		case 0:
			e = uint64(r.Intn(400)) // around the "invalid proposal expiry block" guard
		case 1:
			e = r.U64()
		}
		prior := uint(r.Intn(5))
		active := []int{0, 51, 69, 70, 71, 100, 60}[r.Intn(7)]
		run(input{Fn: "heartbeat", Action: "heartbeat", Start: s, Expiry: e, Prior: prior, Active: active}, em, fmt.Sprintf("hb-%d", i))
	}
	// --- enforcement: corpus (the fault of seeded change C46a: the block counter fails while the
	// deadline is armed) for every armer, then random scripts
	enf := func(id string, a armerIn, clock uint64, m wmode, steps ...dstep) {
		runEnforce(enforceIn{Armer: a, Clock: clock, Mode: m, Steps: steps}, em, id)
	}
	errNow, okMode, hang := wmode{Kind: "err"}, wmode{Kind: "ok"}, wmode{Kind: "hang"}
	enf("corpus-enforce-prim-err-now", armerIn{Kind: "prim", Target: 1000}, 900, errNow, dstep{Adv: 950}, dstep{Adv: 1000})
	enf("corpus-enforce-prim-err-later", armerIn{Kind: "prim", Target: 1000}, 900, wmode{Kind: "err", K: 40},
		dstep{Adv: 939}, dstep{Adv: 940}, dstep{Adv: 1001})
	enf("corpus-enforce-prim-ok", armerIn{Kind: "prim", Target: 1000}, 900, okMode, dstep{Adv: 999}, dstep{Adv: 1000}, dstep{Adv: 1001})
	enf("corpus-enforce-prim-hang-parent", armerIn{Kind: "prim", Target: 1000, HasParent: true}, 900, hang,
		dstep{Adv: 1000}, dstep{Adv: 1100}, dstep{Cancel: true}, dstep{Adv: 1200})
	enf("corpus-enforce-prim-past-target", armerIn{Kind: "prim", Target: 800}, 900, okMode, dstep{Adv: 901})
	enf("corpus-enforce-signtx-err-now", armerIn{Kind: "signtx", Start: start, Expiry: start + 900}, start, errNow,
		dstep{Adv: start + 1}, dstep{Adv: start + 900})
	enf("corpus-enforce-hbsign-err-now", armerIn{Kind: "hbsign", Start: 1000, Expiry: 1000 + hbValidity}, 1000, errNow,
		dstep{Adv: 1001}, dstep{Adv: 1300}, dstep{Adv: 1650})
	enf("corpus-enforce-hbsign-ok", armerIn{Kind: "hbsign", Start: 1000, Expiry: 1000 + hbValidity}, 1000, okMode,
		dstep{Adv: 1299}, dstep{Adv: 1300})
	enf("corpus-enforce-hbclaim-err-later", armerIn{Kind: "hbclaim", Start: 1000, Expiry: 1000 + hbValidity}, 1250,
		wmode{Kind: "err", K: 20}, dstep{Adv: 1269}, dstep{Adv: 1270}, dstep{Adv: 1600})
	for _, a := range txActions {
		e := start + validity[a]
		enf("corpus-enforce-exec-err-now-"+a, armerIn{Kind: "exec", Action: a, Start: start, Expiry: e}, start+2, errNow,
			dstep{Adv: start + 100}, dstep{Adv: e - 300}, dstep{Adv: e + 10})
		enf("corpus-enforce-exec-ok-"+a, armerIn{Kind: "exec", Action: a, Start: start, Expiry: e}, start+2, okMode,
			dstep{Adv: e - 301}, dstep{Adv: e - 300})
	}
	for i := 0; i < o.Count(260, 2600); i++ {
		r := rng.Fork(fmt.Sprintf("enf%d", i))
		var a armerIn
		var clock, target uint64
		s := randStart(r)
		if s > 1<<63 {
			s = uint64(r.Intn(1 << 30)) // enforcement scripts walk the clock forward: no wrapping starts
		}
		switch k := i % 9; k {
		case 0, 1:
			clock = s
			target = clock + uint64(r.Intn(600))
			if r.Chance(1, 8) && clock > 100 {
				target = clock - uint64(r.Intn(100)) // deadline already passed when armed
			}
			a = armerIn{Kind: "prim", Target: target, HasParent: r.Chance(2, 3)}
		case 2:
			clock = s + uint64(r.Intn(5))
			target = s + 600 + uint64(r.Intn(600))
			a = armerIn{Kind: "signtx", Start: s, Expiry: target}
		case 3:
			clock = s + uint64(r.Intn(5))
			e := s + hbValidity
			if r.Chance(1, 6) {
				e = s + 300 + uint64(r.Intn(600))
			}
			target = e - 300
			a = armerIn{Kind: "hbsign", Start: s, Expiry: e}
		case 4:
			clock = s + uint64(r.Intn(280))
			e := s + hbValidity
			target = e - 25
			a = armerIn{Kind: "hbclaim", Start: s, Expiry: e}
		default:
			act := txActions[k-5]
			clock = s + uint64(r.Intn(5))
			e := s + validity[act]
			if r.Chance(1, 6) {
				e = s + 300 + uint64(r.Intn(1200))
			}
			target = e - 300
			a = armerIn{Kind: "exec", Action: act, Start: s, Expiry: e}
		}
		m := genMode(r, clock, target)
		runEnforce(enforceIn{Armer: a, Clock: clock, Mode: m, Steps: genSteps(r, clock, target, m, a.HasParent)}, em,
			fmt.Sprintf("enf-%d", i))
	}
	em.Close("a case is one action built by its production constructor (static), one window end (start), one "+
		"signTransaction call (sign) or one heartbeat execution (heartbeat); static cases are non-trivial when the expiry "+
		"is start + ValidityBlocks as node.go sets it, heartbeat cases when the inactivity claim is issued; an enforce case is one "+
		"deadline armed by the real code with a scripted block waiter and clock, non-trivial when the waiter fails or the "+
		"context is closed by a scripted event", nil)
}
