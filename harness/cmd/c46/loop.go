// Enforcement one level down: does the signing executor's retry loop OBEY the context it is
// handed? The real signingExecutor.sign / signBatch (production constructor, production attempts
// limit; hook pkg/tbtc/verif_export_c46_loop.go) runs on a fake broadcast channel that delivers
// nothing (so the real announcer reports only the member itself ready: a minority, every attempt
// fails) and on a simulated block clock:
//
//   - getCurrentBlockFn reads the clock; waitForBlockFn(ctx, b) parks until the clock shows >= b
//     or ctx is done (what node.waitForBlockHeight does), or fails at once for a scripted block;
//   - the clock moves ONLY when every other goroutine of the process is parked (a stop-the-world
//     goroutine dump shows nothing running or runnable: nothing can happen any more without the
//     clock), and then jumps to the earliest block somebody waits for, or to the deadline;
//   - the caller's context (the action's signing context) is cancelled by the clock itself in
//     the very step that makes it show the deadline block, before any waiter is released.
//
// So every observation is in scripted block terms and deterministic: the clock value at every
// announcement the executor sends (= an attempt it started) together with whether the context
// of that announcement was still live, and the clock value when sign() returned. Nothing is
// decided from wall-clock time; if the process does not come to rest within a bounded number of
// probes the case is skipped and tallied as inconclusive.
package main

import (
	"bytes"
	"context"
	"errors"
	"fmt"
	"math/big"
	"os"
	"runtime"
	"sort"
	"strings"
	"sync"

	"github.com/keep-network/keep-core/pkg/chain"
	"github.com/keep-network/keep-core/pkg/net"
	"github.com/keep-network/keep-core/pkg/protocol/group"
	"github.com/keep-network/keep-core/pkg/tbtc"

	"verifharness/lib"
)

// one call of sign()/signBatch(); several calls of one loopIn share ONE executor, ONE clock and
// ONE caller context
type loopCall struct {
	Start   uint64 `json:"start"`             // start block of the message
	At      uint64 `json:"at,omitempty"`      // the clock is moved to this block before the call (if it is behind)
	WaitErr []int  `json:"waitErr,omitempty"` // attempts (from 0) whose wait for the announcement start block fails at once
	Batch   bool   `json:"batch,omitempty"`   // call signBatch with two messages instead of sign
}

type loopIn struct {
	Seats    int        `json:"seats"`    // seats of the wallet controlled by this executor (1 or 2 of 5, honest threshold 3)
	Deadline uint64     `json:"deadline"` // block at which the caller's context is cancelled
	Clock    uint64     `json:"clock"`    // clock when the first call is made
	Calls    []loopCall `json:"calls"`
}

var errScriptedWait = errors.New("verif: scripted block waiter failure")

type simWaiter struct {
	block uint64
	ch    chan struct{}
}

type sendObs struct {
	Block uint64 `json:"block"`
	Live  bool   `json:"live"`
}

type simClock struct {
	mu           sync.Mutex
	now          uint64
	deadline     uint64
	cancelParent context.CancelFunc
	cancelled    bool
	waiters      map[*simWaiter]bool
	errBlocks    map[uint64]bool
	sends        []sendObs
	over         bool
}

func (c *simClock) current() (uint64, error) {
	c.mu.Lock()
	defer c.mu.Unlock()
	return c.now, nil
}

func (c *simClock) wait(ctx context.Context, b uint64) error {
	c.mu.Lock()
	if c.errBlocks[b] {
		c.mu.Unlock()
		return errScriptedWait
	}
	if c.over || c.now >= b {
		c.mu.Unlock()
		return nil
	}
	w := &simWaiter{b, make(chan struct{})}
	c.waiters[w] = true
	c.mu.Unlock()
	select {
	case <-w.ch:
	case <-ctx.Done():
		c.mu.Lock()
		delete(c.waiters, w)
		c.mu.Unlock()
	}
	return nil
}

// set moves the clock to b: cancels the caller's context first if b reaches the deadline, then
// releases the waiters of blocks <= b.
func (c *simClock) set(b uint64) {
	c.mu.Lock()
	defer c.mu.Unlock()
	if b > c.now {
		c.now = b
	}
	if !c.cancelled && c.now >= c.deadline {
		c.cancelled = true
		c.cancelParent()
	}
	for w := range c.waiters {
		if w.block <= c.now {
			close(w.ch)
			delete(c.waiters, w)
		}
	}
}

// next is the earliest block above the clock that a parked waiter or the deadline is waiting for.
func (c *simClock) next() (uint64, bool) {
	c.mu.Lock()
	defer c.mu.Unlock()
	var best uint64
	ok := false
	if !c.cancelled {
		best, ok = c.deadline, true
	}
	for w := range c.waiters {
		if !ok || w.block < best {
			best, ok = w.block, true
		}
	}
	return best, ok
}

func (c *simClock) finish() {
	c.mu.Lock()
	c.over = true
	if !c.cancelled {
		c.cancelled = true
		c.cancelParent()
	}
	for w := range c.waiters {
		close(w.ch)
		delete(c.waiters, w)
	}
	c.mu.Unlock()
}

// fake broadcast channel: records the announcements, delivers nothing
type simChannel struct{ c *simClock }

func (s simChannel) Name() string { return "verif-c46" }
func (s simChannel) Send(ctx context.Context, m net.TaggedMarshaler, _ ...net.RetransmissionStrategy) error {
	s.c.mu.Lock()
	defer s.c.mu.Unlock()
	if strings.Contains(m.Type(), "announce") {
		s.c.sends = append(s.c.sends, sendObs{s.c.now, ctx.Err() == nil})
	}
	return nil
}
func (s simChannel) Recv(context.Context, func(net.Message))     {}
func (s simChannel) SetUnmarshaler(func() net.TaggedUnmarshaler) {}
func (s simChannel) SetFilter(net.BroadcastChannelFilter) error  { return nil }

var blockedStates = map[string]bool{
	"chan receive": true, "chan send": true, "select": true, "semacquire": true,
	"sync.Mutex.Lock": true, "sync.RWMutex.RLock": true, "sync.RWMutex.Lock": true,
	"sync.WaitGroup.Wait": true, "sync.Cond.Wait": true, "select (no cases)": true,
	"chan receive (nil chan)": true, "chan send (nil chan)": true, "IO wait": true,
	"finalizer wait": true,
}

// atRest reports whether every goroutine other than the caller is parked on a channel, select or
// lock. The dump stops the world, so it is one consistent snapshot; a goroutine woken by a
// closed channel or a cancelled context is runnable in it. Goroutines sleeping on a timer count
// as parked only when they run nothing of keep-core or of this driver.
func atRest(buf []byte) (bool, []byte) {
	for {
		n := runtime.Stack(buf, true)
		if n < len(buf) {
			buf = buf[:n]
			break
		}
		buf = make([]byte, 2*len(buf))
	}
	first := true
	for _, g := range bytes.Split(buf, []byte("\n\n")) {
		if !bytes.HasPrefix(g, []byte("goroutine ")) {
			continue
		}
		if first { // the caller
			first = false
			continue
		}
		l := bytes.IndexByte(g, '[')
		r := bytes.IndexByte(g, ']')
		if l < 0 || r < l {
			return false, buf[:cap(buf)]
		}
		state := string(g[l+1 : r])
		if i := strings.IndexByte(state, ','); i >= 0 {
			state = state[:i]
		}
		if blockedStates[state] {
			continue
		}
		if state == "sleep" && !bytes.Contains(g, []byte("keep-core/pkg/")) && !bytes.Contains(g, []byte("main.")) {
			continue
		}
		return false, buf[:cap(buf)]
	}
	return true, buf[:cap(buf)]
}

const restProbes = 2_000_000

// settle waits until the process is at rest; false = it did not within the probe budget
func settle(buf *[]byte) bool {
	for i := 0; i < restProbes; i++ {
		var ok bool
		ok, *buf = atRest(*buf)
		if ok {
			return true
		}
		runtime.Gosched()
	}
	return false
}

type loopCallOut struct {
	Clock     uint64    `json:"clockAtCall"`
	Sends     []sendObs `json:"announcements"`
	End       int64     `json:"returnedAtBlock"` // -1: the process is at rest, nothing is awaited and the call has not returned
	Err       string    `json:"err"`
	Signed    int       `json:"signed"`
	Panic     string    `json:"panic,omitempty"`
	ModelFuel int       `json:"-"`
}

func failKinds(waitErr []int) (string, int) {
	max := -1
	set := map[int]bool{}
	for _, k := range waitErr {
		set[k] = true
		if k > max {
			max = k
		}
	}
	items := make([]string, 0, max+1)
	for k := 0; k <= max; k++ {
		if set[k] {
			items = append(items, "FWaitErr")
		} else {
			items = append(items, "FMinority")
		}
	}
	return lib.List(items), max + 1
}

func runLoop(in loopIn, em *lib.Emitter, id string) {
	if in.Seats < 1 || in.Seats > 2 || len(in.Calls) == 0 {
		fmt.Fprintln(os.Stderr, "malformed loop case")
		return
	}
	_, attemptBlocks, _ := tbtc.VerifC46SigningLoopBlocks()
	annDelay, _ := tbtc.VerifC46AnnouncementBlocks()
	parent, cancel := context.WithCancel(context.Background())
	clock := &simClock{now: in.Clock, deadline: in.Deadline, cancelParent: cancel,
		waiters: map[*simWaiter]bool{}, errBlocks: map[uint64]bool{}}
	defer clock.finish()
	operators := chain.Addresses{"0xa1", "0xa2", "0xa3", "0xa4", "0xa5"}
	seats := []group.MemberIndex{2, 4}[:in.Seats]
	exec := tbtc.VerifC46NewSigningExecutor(walletKey.ToECDSA(), operators, seats, simChannel{clock}, nil,
		&tbtc.GroupParameters{GroupSize: 5, GroupQuorum: 4, HonestThreshold: 3}, clock.current, clock.wait)
	buf := make([]byte, 1<<16)
	clock.set(in.Clock)

	for ci, call := range in.Calls {
		// bring the clock to the call time (releases nothing: no call is in flight)
		if call.At > clock.now {
			clock.set(call.At)
		}
		clock.mu.Lock()
		clock.sends = nil
		clock.errBlocks = map[uint64]bool{}
		for _, k := range call.WaitErr {
			clock.errBlocks[call.Start+uint64(k)*uint64(attemptBlocks)+annDelay] = true
		}
		out := loopCallOut{Clock: clock.now}
		clock.mu.Unlock()

		type ret struct {
			signed int
			err    error
			panic  string
		}
		done := make(chan ret, 1)
		go func() {
			var r ret
			defer func() {
				if p := recover(); p != nil {
					r.panic = fmt.Sprint(p)
				}
				done <- r
			}()
			if call.Batch {
				r.signed, r.err = exec.SignBatch(parent, []*big.Int{big.NewInt(int64(1000 + ci)), big.NewInt(int64(2000 + ci))}, call.Start)
			} else {
				var ok bool
				ok, _, r.err = exec.Sign(parent, big.NewInt(int64(1000+ci)), call.Start)
				if ok {
					r.signed = 1
				}
			}
		}()
		returned := false
		for !returned {
			if !settle(&buf) {
				em.Tally("loop-inconclusive-skipped")
				return
			}
			select {
			case r := <-done:
				returned = true
				out.End = int64(clock.now)
				out.Signed, out.Panic = r.signed, r.panic
				if r.err != nil {
					out.Err = r.err.Error()
				}
			default:
				b, ok := clock.next()
				if !ok {
					returned = true
					out.End = -1
				} else {
					clock.set(b)
				}
			}
		}
		clock.mu.Lock()
		sends := append([]sendObs(nil), clock.sends...)
		clock.mu.Unlock()
		sort.Slice(sends, func(i, j int) bool {
			if sends[i].Block != sends[j].Block {
				return sends[i].Block < sends[j].Block
			}
			return !sends[i].Live && sends[j].Live
		})
		for _, s := range sends { // one entry per (block, live): the seats run in lockstep
			if n := len(out.Sends); n == 0 || out.Sends[n-1] != s {
				out.Sends = append(out.Sends, s)
			}
		}
		items := make([]string, len(out.Sends))
		liveLate := false
		for i, s := range out.Sends {
			items[i] = lib.Pair(lib.ZU(s.Block), lib.Bool(s.Live))
			if s.Live && s.Block >= in.Deadline {
				liveLate = true
			}
		}
		script, _ := failKinds(call.WaitErr)
		coq := fmt.Sprintf("(CLoop %s %s %s %s {| l_sends := %s; l_end := %s; l_err := %s |})",
			lib.ZU(call.Start), lib.ZU(in.Deadline), lib.ZU(out.Clock), script, lib.List(items), lib.Z(out.End),
			lib.Bool(out.Err != "" && out.Panic == "" && out.Signed == 0))
		one := loopIn{Seats: in.Seats, Deadline: in.Deadline, Clock: out.Clock, Calls: []loopCall{{Start: call.Start, WaitErr: call.WaitErr, Batch: call.Batch}}}
		cut := in.Deadline < call.Start+loopBlocksU() && out.Clock < in.Deadline
		em.Tally("loop")
		if cut {
			em.Tally("loop-cut-by-deadline")
		}
		if ci > 0 {
			em.Tally("loop-later-call-same-executor")
		}
		if call.Batch {
			em.Tally("loop-batch")
		}
		em.Case(lib.Case{ID: fmt.Sprintf("%s-m%d", id, ci+1), Coq: coq,
			Key:        fmt.Sprintf("loop|%d|%d|%d|%d|%v|%v", in.Seats, call.Start, in.Deadline, out.Clock, call.WaitErr, call.Batch),
			Nontrivial: cut,
			Sig: map[string]interface{}{"fn": "loop", "batch": call.Batch, "lateAttempt": liveLate,
				"overrun": out.End < 0 || uint64(out.End) > in.Deadline && uint64(out.End) > out.Clock},
			In: input{Fn: "loop", Loop: &one}, Out: out})
		if out.End < 0 {
			return
		}
	}
}

func loopBlocksU() uint64 {
	_, _, l := tbtc.VerifC46SigningLoopBlocks()
	return l
}

// corpus + random scripts; every script is small (a call walks at most ~3 clock steps per attempt)
func genLoops(o lib.Opts, rng *lib.Rng, em *lib.Emitter) {
	L := loopBlocksU()
	_, ab, _ := tbtc.VerifC46SigningLoopBlocks()
	A := uint64(ab)
	delay, active := tbtc.VerifC46AnnouncementBlocks()
	s := uint64(10_000)
	one := func(id string, seats int, deadline, clock uint64, calls ...loopCall) {
		runLoop(loopIn{Seats: seats, Deadline: deadline, Clock: clock, Calls: calls}, em, id)
	}
	// the situation of seeded change C46b: the message starts 100 blocks before the deadline
	one("corpus-loop-late-message", 1, s+100, s-2, loopCall{Start: s})
	one("corpus-loop-full-window", 1, s+1000, s, loopCall{Start: s})
	one("corpus-loop-deadline-before-start", 1, s-10, s-20, loopCall{Start: s})
	one("corpus-loop-called-after-deadline", 1, s-10, s-5, loopCall{Start: s})
	one("corpus-loop-called-late", 1, s+150, s+100, loopCall{Start: s})
	one("corpus-loop-wait-errors", 1, s+120, s, loopCall{Start: s, WaitErr: []int{0, 2}})
	one("corpus-loop-batch", 1, s+100, s-1, loopCall{Start: s, Batch: true})
	one("corpus-loop-two-seats", 2, s+90, s, loopCall{Start: s})
	// a later message of a batch: the first consumed one whole loop, the second starts
	// signingBatchInterludeBlocks after it and cannot finish its loop before the deadline
	one("corpus-loop-second-message-late", 1, s+L+2+100, s, loopCall{Start: s}, loopCall{Start: s + L + 2})
	for i, d := range []uint64{s + delay, s + delay + active, s + A + delay, s + A + delay + active, s + L - 1, s + L, s + L + 1} {
		one(fmt.Sprintf("corpus-loop-edge-%d", i), 1, d, s, loopCall{Start: s})
	}
	for i := 0; i < o.Count(18, 300); i++ {
		r := rng.Fork(fmt.Sprintf("loop%d", i))
		st := uint64(1000 + r.Intn(1<<30))
		if r.Chance(1, 5) {
			st = r.U64() >> 2
		}
		clock := st - uint64(r.Intn(4))
		if r.Chance(1, 4) {
			clock = st + uint64(r.Intn(int(L)))
		}
		dl := st + uint64(r.Intn(int(L)+20))
		if r.Chance(1, 8) {
			dl = st - uint64(r.Intn(50))
		}
		c1 := loopCall{Start: st, Batch: r.Chance(1, 4)}
		for k := 0; k < 6; k++ {
			if r.Chance(1, 6) {
				c1.WaitErr = append(c1.WaitErr, k)
			}
		}
		calls := []loopCall{c1}
		if r.Chance(1, 3) { // a second message on the same executor after a complete first loop
			dl = st + L + 2 + uint64(r.Intn(int(L)))
			calls = append(calls, loopCall{Start: st + L + 2, At: st + L + uint64(r.Intn(4))})
		}
		one(fmt.Sprintf("loop-%d", i), 1+r.Intn(2), dl, clock, calls...)
	}
}
