// Driver for C38: runs the real tbtc walletRegistry and the real beacon group registry over a
// fault-injecting persistence.ProtectedHandle (in memory; thorough tier also keep-common's disk
// persistence in a directory under /verif/work) on histories of registrations, archivals,
// restarts, storage failures and crashes right before / after every storage call, and prints
// what the registries answer after every step for the Coq model (Model/C38.v).
package main

import (
	"crypto/ecdsa"
	"crypto/sha256"
	"encoding/hex"
	"fmt"
	"math/big"
	"os"
	"path/filepath"
	"sort"
	"strings"
	"sync"

	bn256 "github.com/ethereum/go-ethereum/crypto/bn256/cloudflare"
	"github.com/ipfs/go-log"

	"github.com/bnb-chain/tss-lib/crypto"
	"github.com/bnb-chain/tss-lib/crypto/paillier"
	"github.com/bnb-chain/tss-lib/ecdsa/keygen"
	"github.com/keep-network/keep-common/pkg/persistence"
	beaconchain "github.com/keep-network/keep-core/pkg/beacon/chain"
	"github.com/keep-network/keep-core/pkg/beacon/dkg"
	"github.com/keep-network/keep-core/pkg/beacon/registry"
	"github.com/keep-network/keep-core/pkg/bitcoin"
	"github.com/keep-network/keep-core/pkg/chain"
	"github.com/keep-network/keep-core/pkg/protocol/group"
	"github.com/keep-network/keep-core/pkg/tbtc"
	"github.com/keep-network/keep-core/pkg/tecdsa"

	"verifharness/lib"
)

// ---------------------------------------------------------------- inputs

type op struct {
	Kind   string `json:"kind"` // register | archive | stale | restart
	G      int    `json:"g,omitempty"`
	M      int    `json:"m,omitempty"`
	K      int    `json:"k,omitempty"`
	Stale  []int  `json:"stale,omitempty"`
	Latest int    `json:"latest,omitempty"` // 0: none
	Fault  string `json:"fault,omitempty"`  // "" | fail | crash-before | crash-after
	At     int    `json:"at,omitempty"`     // index of the storage call within the operation
}

type input struct {
	Sys      string `json:"sys"`  // tbtc | beacon
	Disk     bool   `json:"disk"` // keep-common disk persistence instead of the in-memory fake
	Universe int    `json:"universe"`
	Ops      []op   `json:"ops"`
}

// ---------------------------------------------------------------- in-memory persistence

type memHandle struct {
	mu      sync.Mutex
	current map[string]map[string][]byte
	archive map[string]map[string][]byte
}

func newMemHandle() *memHandle {
	return &memHandle{current: map[string]map[string][]byte{}, archive: map[string]map[string][]byte{}}
}

func (h *memHandle) Save(data []byte, directory string, name string) error {
	h.mu.Lock()
	defer h.mu.Unlock()
	name = strings.TrimPrefix(name, "/")
	if h.current[directory] == nil {
		h.current[directory] = map[string][]byte{}
	}
	h.current[directory][name] = append([]byte{}, data...)
	return nil
}

func (h *memHandle) Snapshot(data []byte, directory string, name string) error { return nil }

func (h *memHandle) Archive(directory string) error {
	h.mu.Lock()
	defer h.mu.Unlock()
	d, ok := h.current[directory]
	if !ok {
		return fmt.Errorf("directory [%v] does not exist", directory)
	}
	if h.archive[directory] == nil {
		h.archive[directory] = map[string][]byte{}
	}
	for f, c := range d {
		h.archive[directory][f] = c
	}
	delete(h.current, directory)
	return nil
}

type memDescriptor struct {
	name, dir string
	content   []byte
}

func (d *memDescriptor) Name() string             { return d.name }
func (d *memDescriptor) Directory() string        { return d.dir }
func (d *memDescriptor) Content() ([]byte, error) { return d.content, nil }

func (h *memHandle) ReadAll() (<-chan persistence.DataDescriptor, <-chan error) {
	data := make(chan persistence.DataDescriptor)
	errs := make(chan error)
	h.mu.Lock()
	var all []*memDescriptor
	for dir, files := range h.current { // map order: like a directory listing, no promised order
		for f, c := range files {
			all = append(all, &memDescriptor{f, dir, c})
		}
	}
	h.mu.Unlock()
	go func() {
		defer close(data)
		defer close(errs)
		for _, d := range all {
			data <- d
		}
	}()
	return data, errs
}

// ---------------------------------------------------------------- fault injection

type crashSignal struct{}

// faulty wraps a handle; the n-th storage call (Save / Archive) of the current operation fails
// or "crashes the process" (a panic the driver recovers, after which the registry object is
// thrown away) right before or right after the call takes effect.
type faulty struct {
	inner        persistence.ProtectedHandle
	kind         string
	at           int
	calls        int
	archiveOrder []string
}

func (f *faulty) arm(kind string, at int) { f.kind, f.at, f.calls, f.archiveOrder = kind, at, 0, nil }

func (f *faulty) call(do func() error) error {
	n := f.calls
	f.calls++
	if f.kind != "" && n == f.at {
		switch f.kind {
		case "fail":
			return fmt.Errorf("injected storage failure")
		case "crash-before":
			panic(crashSignal{})
		case "crash-after":
			_ = do()
			panic(crashSignal{})
		}
	}
	return do()
}

func (f *faulty) Save(data []byte, directory string, name string) error {
	return f.call(func() error { return f.inner.Save(data, directory, name) })
}
func (f *faulty) Archive(directory string) error {
	f.archiveOrder = append(f.archiveOrder, directory)
	return f.call(func() error { return f.inner.Archive(directory) })
}
func (f *faulty) Snapshot(data []byte, directory string, name string) error {
	return f.inner.Snapshot(data, directory, name)
}
func (f *faulty) ReadAll() (<-chan persistence.DataDescriptor, <-chan error) {
	return f.inner.ReadAll()
}

// ---------------------------------------------------------------- key material

type itemID struct{ g, m, k int }

func (i itemID) coq() string {
	return fmt.Sprintf("(It %d %d %d)", i.g, i.m, i.k)
}

const unknownK = 999 // key material that is none of the universe's

// system abstracts the two registries for the driver.
type system interface {
	restart() error
	register(it itemID) error
	archiveOne(g int) error
	unregisterStale(stale []int, latest int)
	list() []int          // groups the registry lists
	items(g int) []itemID // memberships of the group, identified by their marshalled bytes
	byPKH(g int) (int, bool)
	byID(g int) (int, bool)
	dirGroup(dir string) int
	decode(content []byte) itemID
}

// ---- tbtc

type tbtcSys struct {
	handle  *faulty
	reg     *tbtc.VerifC38Registry
	pubs    []*ecdsa.PublicKey // by group (1-based index - 1)
	signers map[itemID]*tbtc.VerifC38Signer
	bytesTo map[string]itemID
	pubTo   map[string]int
}

func pubKeyString(p *ecdsa.PublicKey) string {
	if p == nil || p.X == nil || p.Y == nil {
		return "nil"
	}
	return p.X.Text(16) + "," + p.Y.Text(16)
}

func walletID(p *ecdsa.PublicKey) ([32]byte, error) {
	return sha256.Sum256(append(p.X.Bytes(), p.Y.Bytes()...)), nil
}

func newTbtcSys(h *faulty, universe, members, variants int) *tbtcSys {
	s := &tbtcSys{handle: h, signers: map[itemID]*tbtc.VerifC38Signer{}, bytesTo: map[string]itemID{}, pubTo: map[string]int{}}
	curve := tecdsa.Curve
	for g := 1; g <= universe; g++ {
		x, y := curve.ScalarBaseMult(big.NewInt(int64(1000 + 37*g)).Bytes())
		pub := &ecdsa.PublicKey{Curve: curve, X: x, Y: y}
		s.pubs = append(s.pubs, pub)
		s.pubTo[pubKeyString(pub)] = g
		ecPub, err := crypto.NewECPoint(curve, x, y)
		if err != nil {
			panic(err)
		}
		for m := 1; m <= members; m++ {
			for k := 0; k < variants; k++ {
				v := func(i int) *big.Int { return big.NewInt(int64(g*1000000 + m*1000 + k*10 + i)) }
				bx, by := curve.ScalarBaseMult(v(1).Bytes())
				bigX, _ := crypto.NewECPoint(curve, bx, by)
				data := keygen.LocalPartySaveData{
					LocalPreParams: keygen.LocalPreParams{
						PaillierSK: &paillier.PrivateKey{PublicKey: paillier.PublicKey{N: v(2)}, LambdaN: v(3), PhiN: v(4)},
						NTildei:    v(5), H1i: v(6), H2i: v(7), Alpha: v(8), Beta: v(9), P: v(10), Q: v(11),
					},
					LocalSecrets: keygen.LocalSecrets{Xi: v(12), ShareID: v(13)},
					Ks:           []*big.Int{v(14)}, NTildej: []*big.Int{v(15)}, H1j: []*big.Int{v(16)}, H2j: []*big.Int{v(17)},
					BigXj:       []*crypto.ECPoint{bigX},
					PaillierPKs: []*paillier.PublicKey{{N: v(18)}},
					ECDSAPub:    ecPub,
				}
				id := itemID{g, m, k}
				sg := tbtc.VerifC38NewSigner(pub, []chain.Address{"op-a", "op-b", chain.Address(fmt.Sprintf("op-%d", g))},
					group.MemberIndex(m), tecdsa.NewPrivateKeyShare(data))
				b, err := sg.Marshal()
				if err != nil {
					panic(err)
				}
				s.signers[id] = sg
				s.bytesTo[string(b)] = id
			}
		}
	}
	return s
}

func (s *tbtcSys) restart() error {
	r, err := tbtc.VerifC38NewRegistry(s.handle, walletID)
	s.reg = r
	return err
}
func (s *tbtcSys) register(it itemID) error { return s.reg.RegisterSigner(s.signers[it]) }
func (s *tbtcSys) archiveOne(g int) error {
	return s.reg.ArchiveWallet(bitcoin.PublicKeyHash(s.pubs[g-1]))
}
func (s *tbtcSys) unregisterStale([]int, int) {}
func (s *tbtcSys) group(p *ecdsa.PublicKey) int {
	if g, ok := s.pubTo[pubKeyString(p)]; ok {
		return g
	}
	return 0
}
func (s *tbtcSys) list() []int {
	var out []int
	for _, p := range s.reg.GetWalletsPublicKeys() {
		out = append(out, s.group(p))
	}
	return out
}
func (s *tbtcSys) decode(content []byte) itemID {
	if id, ok := s.bytesTo[string(content)]; ok {
		return id
	}
	return itemID{0, 0, unknownK}
}
func (s *tbtcSys) items(g int) []itemID {
	var out []itemID
	for _, sg := range s.reg.GetSigners(s.pubs[g-1]) {
		b, err := sg.Marshal()
		id := itemID{s.group(sg.WalletPublicKey()), 0, unknownK}
		if err == nil {
			if known, ok := s.bytesTo[string(b)]; ok {
				id = known
			}
		}
		out = append(out, id)
	}
	return out
}
func (s *tbtcSys) byPKH(g int) (int, bool) {
	p, ok := s.reg.GetWalletByPublicKeyHash(bitcoin.PublicKeyHash(s.pubs[g-1]))
	if !ok {
		return 0, false
	}
	return s.group(p), true
}
func (s *tbtcSys) byID(g int) (int, bool) {
	id, _ := walletID(s.pubs[g-1])
	p, ok := s.reg.GetWalletByID(id)
	if !ok {
		return 0, false
	}
	return s.group(p), true
}
func (s *tbtcSys) dirGroup(dir string) int {
	for g, p := range s.pubs {
		if hex.EncodeToString(append(p.X.FillBytes(make([]byte, 32)), p.Y.FillBytes(make([]byte, 32))...)) == dir {
			return g + 1
		}
	}
	return 0
}

// ---- beacon

type staleChain struct {
	beaconchain.GroupRegistrationInterface
	stale map[string]bool
}

func (c *staleChain) IsStaleGroup(groupPublicKey []byte) (bool, error) {
	return c.stale[string(groupPublicKey)], nil
}

type beaconSys struct {
	handle  *faulty
	chain   *staleChain
	reg     *registry.Groups
	keys    []*bn256.G2
	members map[itemID]*dkg.ThresholdSigner
	bytesTo map[string]itemID
	logger  log.StandardLogger
}

func newBeaconSys(h *faulty, universe, members, variants int) *beaconSys {
	s := &beaconSys{handle: h, chain: &staleChain{stale: map[string]bool{}}, members: map[itemID]*dkg.ThresholdSigner{},
		bytesTo: map[string]itemID{}, logger: log.Logger("verif-c38")}
	for g := 1; g <= universe; g++ {
		key := new(bn256.G2).ScalarBaseMult(big.NewInt(int64(500 + 11*g)))
		s.keys = append(s.keys, key)
		for m := 1; m <= members; m++ {
			for k := 0; k < variants; k++ {
				share := big.NewInt(int64(g*1000000 + m*1000 + k + 1))
				id := itemID{g, m, k}
				ts := dkg.NewThresholdSigner(group.MemberIndex(m), key, share,
					map[group.MemberIndex]*bn256.G2{group.MemberIndex(m): new(bn256.G2).ScalarBaseMult(share)},
					[]chain.Address{"op-a", chain.Address(fmt.Sprintf("op-%d", g))})
				s.members[id] = ts
				b, err := (&registry.Membership{Signer: ts, ChannelName: s.channel(g)}).Marshal()
				if err != nil {
					panic(err)
				}
				s.bytesTo[string(b)] = id
			}
		}
	}
	return s
}

func (s *beaconSys) channel(g int) string { return fmt.Sprintf("channel-%d", g) }
func (s *beaconSys) restart() error {
	s.reg = registry.NewGroupRegistry(s.logger, s.chain, s.handle)
	s.reg.LoadExistingGroups()
	return nil
}
func (s *beaconSys) register(it itemID) error {
	return s.reg.RegisterGroup(s.members[it], s.channel(it.g))
}
func (s *beaconSys) archiveOne(int) error { return nil }
func (s *beaconSys) unregisterStale(stale []int, latest int) {
	s.chain.stale = map[string]bool{}
	for _, g := range stale {
		s.chain.stale[string(s.keys[g-1].Marshal())] = true
	}
	var l []byte
	if latest > 0 {
		l = s.keys[latest-1].Marshal()
	}
	s.reg.UnregisterStaleGroups(l)
}
func (s *beaconSys) decode(content []byte) itemID {
	if id, ok := s.bytesTo[string(content)]; ok {
		return id
	}
	return itemID{0, 0, unknownK}
}
func (s *beaconSys) items(g int) []itemID {
	var out []itemID
	for _, m := range s.reg.GetGroup(s.keys[g-1].Marshal()) {
		id := itemID{0, 0, unknownK}
		if m != nil && m.Signer != nil {
			gg := 0
			for i, k := range s.keys {
				if string(k.Marshal()) == string(m.Signer.GroupPublicKeyBytes()) {
					gg = i + 1
				}
			}
			id = itemID{gg, int(m.Signer.MemberID()), unknownK}
			if b, err := m.Marshal(); err == nil {
				if known, ok := s.bytesTo[string(b)]; ok {
					id = known
				}
			}
		}
		out = append(out, id)
	}
	return out
}
func (s *beaconSys) list() []int {
	var out []int
	for g := range s.keys {
		if len(s.reg.GetGroup(s.keys[g].Marshal())) > 0 {
			out = append(out, g+1)
		}
	}
	return out
}
func (s *beaconSys) byPKH(int) (int, bool) { return 0, false }
func (s *beaconSys) byID(int) (int, bool)  { return 0, false }
func (s *beaconSys) dirGroup(dir string) int {
	for g := range s.keys {
		if hex.EncodeToString(s.members[itemID{g + 1, 1, 0}].GroupPublicKeyBytesCompressed()) == dir {
			return g + 1
		}
	}
	return 0
}

// ---------------------------------------------------------------- running one history

const members, variants = 3, 2

func optN(v int, ok bool) string {
	if !ok {
		return "None"
	}
	return fmt.Sprintf("(Some %d)", v)
}

func listInts(v []int) string {
	s := make([]string, len(v))
	for i, x := range v {
		s[i] = fmt.Sprint(x)
	}
	return lib.List(s)
}

func listItems(v []itemID) string {
	s := make([]string, len(v))
	for i, x := range v {
		s[i] = x.coq()
	}
	return lib.List(s)
}

func faultCoq(o op) string {
	switch o.Fault {
	case "fail":
		return fmt.Sprintf("(Fault FFail %d%%nat)", o.At)
	case "crash-before":
		return fmt.Sprintf("(Fault FCrashBefore %d%%nat)", o.At)
	case "crash-after":
		return fmt.Sprintf("(Fault FCrashAfter %d%%nat)", o.At)
	}
	return "NoFault"
}

var diskCounter int

func run(in input, em *lib.Emitter, id string) {
	var inner persistence.ProtectedHandle
	if in.Disk {
		base := os.Getenv("VERIF_WORK")
		if base == "" {
			base = "/verif/work/C38"
		}
		diskCounter++
		dir := filepath.Join(base, "disk", fmt.Sprintf("%d-%d", os.Getpid(), diskCounter))
		_ = os.RemoveAll(dir)
		if err := os.MkdirAll(dir, 0o755); err != nil {
			panic(err)
		}
		defer os.RemoveAll(dir)
		h, err := persistence.NewProtectedDiskHandle(dir)
		if err != nil {
			panic(err)
		}
		inner = h
	} else {
		inner = newMemHandle()
	}
	fh := &faulty{inner: inner}
	var sys system
	if in.Sys == "tbtc" {
		sys = newTbtcSys(fh, in.Universe, members, variants)
	} else {
		sys = newBeaconSys(fh, in.Universe, members, variants)
	}
	log.SetAllLoggers(log.LevelFatal) // registry logging off
	if err := sys.restart(); err != nil {
		panic(err)
	}
	universe := make([]int, in.Universe)
	for i := range universe {
		universe[i] = i + 1
	}
	var obs []string
	var outs []interface{}
	crashes, restarts, archived, faults := 0, 0, 0, 0
	for _, o := range in.Ops {
		fh.arm(o.Fault, o.At)
		outcome := "OOk"
		func() {
			defer func() {
				if r := recover(); r != nil {
					if _, ok := r.(crashSignal); ok {
						outcome = "OCrashed"
						return
					}
					outcome = "OBadOracle" // a genuine panic of the registry: never acceptable
					em.Tally("panic")
				}
			}()
			var err error
			switch o.Kind {
			case "register":
				err = sys.register(itemID{o.G, o.M, o.K})
			case "archive":
				err = sys.archiveOne(o.G)
			case "stale":
				sys.unregisterStale(o.Stale, o.Latest)
			case "restart":
				err = sys.restart()
			}
			if err != nil {
				outcome = "OErr"
			}
		}()
		order := fh.archiveOrder
		fh.arm("", 0)
		if outcome == "OCrashed" {
			crashes++
			if err := sys.restart(); err != nil {
				outcome = "OBadOracle"
			}
		}
		if o.Kind == "restart" {
			restarts++
		}
		if o.Fault != "" {
			faults++
		}
		// the operation as a Coq term
		var opc string
		switch o.Kind {
		case "register":
			opc = "(Register " + itemID{o.G, o.M, o.K}.coq() + ")"
		case "archive":
			opc = fmt.Sprintf("(ArchiveOne %d)", o.G)
			if outcome == "OOk" {
				archived++
			}
		case "stale":
			var ord []int
			for _, d := range order {
				ord = append(ord, sys.dirGroup(d))
			}
			archived += len(ord)
			opc = fmt.Sprintf("(ArchiveStale %s %s %s)", listInts(o.Stale), optN(o.Latest, o.Latest > 0), listInts(ord))
		default:
			opc = "Restart"
		}
		// observation
		lst := sys.list()
		sort.Ints(lst)
		var gs []string
		snapshot := map[string]interface{}{"outcome": outcome, "list": lst}
		for _, g := range universe {
			its := sys.items(g)
			ph, phok := sys.byPKH(g)
			wi, wiok := sys.byID(g)
			gs = append(gs, fmt.Sprintf("(Gs %d %s %s %s)",
				g, listItems(its), optN(ph, phok), optN(wi, wiok)))
			snapshot[fmt.Sprintf("group%d", g)] = fmt.Sprint(its, optN(ph, phok), optN(wi, wiok))
		}
		var dump []itemID
		data, errs := inner.ReadAll()
		var wg sync.WaitGroup
		wg.Add(2)
		go func() {
			defer wg.Done()
			for d := range data {
				c, err := d.Content()
				it := itemID{0, 0, unknownK}
				if err == nil {
					it = sys.decode(c)
				}
				if dg := sys.dirGroup(d.Directory()); dg != it.g || d.Name() != fmt.Sprintf("membership_%d", it.m) {
					it = itemID{dg, 0, unknownK} // content filed under the wrong directory / name
				}
				dump = append(dump, it)
			}
		}()
		go func() {
			defer wg.Done()
			for range errs {
			}
		}()
		wg.Wait()
		sort.Slice(dump, func(i, j int) bool {
			a, b := dump[i], dump[j]
			if a.g != b.g {
				return a.g < b.g
			}
			if a.m != b.m {
				return a.m < b.m
			}
			return a.k < b.k
		})
		snapshot["store"] = fmt.Sprint(dump)
		outs = append(outs, snapshot)
		obs = append(obs, fmt.Sprintf("(Ob %s %s %s %s %s %s)",
			opc, faultCoq(o), outcome, listInts(lst), lib.List(gs), listItems(dump)))
	}
	em.Tally(in.Sys)
	if in.Disk {
		em.Tally("disk")
	}
	em.Tally(fmt.Sprintf("ops-%02d", (len(in.Ops)+4)/5*5))
	if crashes > 0 {
		em.Tally("with-crash")
	}
	em.Case(lib.Case{
		ID: id,
		Coq: fmt.Sprintf("{| c_tbtc := %s; c_universe := %s; c_hist := %s |}",
			lib.Bool(in.Sys == "tbtc"), listInts(universe), lib.List(obs)),
		Key:        fmt.Sprintf("%s|%v|%d|%v", in.Sys, in.Disk, in.Universe, in.Ops),
		Nontrivial: archived > 0 && (crashes > 0 || restarts > 0),
		Sig: map[string]interface{}{"sys": in.Sys, "disk": in.Disk, "crash": crashes > 0,
			"archive": archived > 0, "faults": faults > 0},
		In:  in,
		Out: outs,
	})
}

// ---------------------------------------------------------------- generators

func randomHistory(r *lib.Rng, sys string, universe, n int) []op {
	var ops []op
	for i := 0; i < n; i++ {
		var o op
		switch x := r.Intn(10); {
		case x < 5:
			o = op{Kind: "register", G: r.Range(1, universe), M: r.Range(1, members), K: 0}
			if r.Chance(1, 6) {
				o.K = 1 // the same seat registered again with other key material
			}
		case x < 8:
			if sys == "tbtc" {
				o = op{Kind: "archive", G: r.Range(1, universe)}
			} else {
				o = op{Kind: "stale"}
				for g := 1; g <= universe; g++ {
					if r.Chance(1, 2) {
						o.Stale = append(o.Stale, g)
					}
				}
				if r.Chance(2, 3) {
					o.Latest = r.Range(1, universe)
				}
			}
		default:
			o = op{Kind: "restart"}
		}
		if o.Kind != "restart" && r.Chance(1, 3) {
			o.Fault = []string{"fail", "crash-before", "crash-after"}[r.Intn(3)]
			if o.Kind == "stale" {
				o.At = r.Intn(3)
			}
		}
		ops = append(ops, o)
	}
	return ops
}

func main() {
	o := lib.ParseOpts()
	em := lib.NewEmitter()
	if o.Replay != "" {
		var in input
		if err := lib.LoadReplay(o.Replay, &in); err != nil {
			fmt.Fprintln(os.Stderr, err)
			os.Exit(2)
		}
		run(in, em, "replay")
		em.Close("replay", nil)
		return
	}
	rng := lib.NewRng(o.Seed)
	reg := func(g, m, k int) op { return op{Kind: "register", G: g, M: m, K: k} }
	regF := func(g, m, k int, f string) op { return op{Kind: "register", G: g, M: m, K: k, Fault: f} }
	restart := op{Kind: "restart"}

	// --- corpus
	for _, sys := range []string{"tbtc", "beacon"} {
		arch := func(g int, f string) op {
			if sys == "tbtc" {
				return op{Kind: "archive", G: g, Fault: f}
			}
			return op{Kind: "stale", Stale: []int{g}, Fault: f}
		}
		for _, disk := range []bool{false, true} {
			if disk && o.Tier == "quick" && sys == "beacon" {
				continue
			}
			tag := sys
			if disk {
				tag += "-disk"
			}
			run(input{sys, disk, 3, []op{reg(1, 1, 0), reg(1, 2, 0), reg(2, 1, 0), restart, arch(1, ""), restart}}, em, "corpus-basic-"+tag)
			run(input{sys, disk, 3, []op{reg(1, 1, 0), regF(1, 2, 0, "crash-after"), regF(2, 1, 0, "crash-before"), regF(3, 1, 0, "fail"), restart}}, em, "corpus-register-faults-"+tag)
			run(input{sys, disk, 3, []op{reg(1, 1, 0), reg(2, 1, 0), arch(1, "crash-after"), arch(2, "crash-before"), arch(2, "fail"), arch(2, ""), arch(2, ""), restart}}, em, "corpus-archive-faults-"+tag)
			run(input{sys, disk, 2, []op{reg(1, 1, 0), arch(1, ""), reg(1, 1, 0), restart, arch(1, ""), restart, reg(1, 2, 1), reg(1, 2, 0), restart}}, em, "corpus-rearchive-"+tag)
			run(input{sys, disk, 2, []op{reg(1, 10%(members+1), 0), reg(1, 2, 0), reg(1, 2, 1), restart}}, em, "corpus-overwrite-"+tag)
		}
	}
	run(input{"beacon", false, 4, []op{reg(1, 1, 0), reg(2, 1, 0), reg(3, 1, 0), reg(4, 2, 0),
		{Kind: "stale", Stale: []int{1, 2, 3, 4}, Latest: 3},
		reg(1, 1, 0), reg(2, 1, 0),
		{Kind: "stale", Stale: []int{1, 2, 3}, Fault: "crash-after", At: 1},
		{Kind: "stale", Stale: []int{1, 2, 3}, Fault: "fail", At: 0}, restart}}, em, "corpus-beacon-stale-many")

	// --- small-scope exhaustive: every history of length <= 3 over one group with two members, every fault
	if o.Tier != "quick" {
		for _, sys := range []string{"tbtc", "beacon"} {
			var alphabet []op
			for _, f := range []string{"", "fail", "crash-before", "crash-after"} {
				alphabet = append(alphabet, regF(1, 1, 0, f), regF(1, 2, 0, f))
				if sys == "tbtc" {
					alphabet = append(alphabet, op{Kind: "archive", G: 1, Fault: f})
				} else {
					alphabet = append(alphabet, op{Kind: "stale", Stale: []int{1}, Fault: f})
				}
			}
			alphabet = append(alphabet, restart)
			n := 0
			for _, a := range alphabet {
				for _, b := range alphabet {
					for _, c := range alphabet {
						run(input{sys, false, 1, []op{a, b, c, restart}}, em, fmt.Sprintf("small-%s-%d", sys, n))
						n++
					}
				}
			}
		}
	}

	// --- random histories
	nRand := o.Count(160, 1600)
	for i := 0; i < nRand; i++ {
		r := rng.Fork(fmt.Sprintf("rand%d", i))
		sys := []string{"tbtc", "beacon"}[i%2]
		universe := r.Range(1, 4)
		disk := o.Tier != "quick" && r.Chance(1, 4)
		ops := randomHistory(r, sys, universe, r.Range(3, 14))
		ops = append(ops, restart)
		run(input{sys, disk, universe, ops}, em, fmt.Sprintf("rand-%d", i))
	}
	em.Close("a case is one history of register / archive / restart operations with injected storage failures and "+
		"crashes before/after storage calls against one real registry (tbtc walletRegistry or beacon Groups) over an "+
		"in-memory or on-disk ProtectedHandle; the registry is observed after every step; distinct by the whole history; "+
		"non-trivial when something was archived and the registry was rebuilt at least once (restart or crash)", nil)
}
