// Driver for C47: runs the five real "wait for my slot then submit unless somebody else did"
// routines against a fake chain / block counter and reports the block each member waits for
// (its slot), whether and when it called the on-chain submission, and how it left.
//
//	beacon-dkg  result.SubmittingMember.SubmitDKGResult            (exported)
//	relay-entry entry.relayEntrySubmitter.submitRelayEntry          (hook VerifC47SubmitRelayEntry)
//	tbtc-dkg    tbtc.dkgResultSubmitter.SubmitResult                (hook VerifC47SubmitDkgResult)
//	approval    tbtc.dkgExecutor.executeDkgValidation               (hook VerifC47ExecuteDkgValidation)
//	inactivity  tbtc.inactivityClaimSubmitter.SubmitClaim           (hook VerifC47SubmitInactivityClaim)
//
// Histories are delivered one event at a time; after each event the driver waits for the
// consequence the code must produce (a submission call, or the routine returning), so no
// verdict depends on wall-clock time or on a select race.
package main

import (
	"context"
	"crypto/ecdsa"
	"encoding/hex"
	"fmt"
	"math/big"
	"os"
	"sync"

	"github.com/bnb-chain/tss-lib/crypto"
	"github.com/bnb-chain/tss-lib/ecdsa/keygen"
	"github.com/btcsuite/btcd/btcec/v2"
	"github.com/ipfs/go-log/v2"
	beaconchain "github.com/keep-network/keep-core/pkg/beacon/chain"
	"github.com/keep-network/keep-core/pkg/beacon/dkg/result"
	"github.com/keep-network/keep-core/pkg/beacon/entry"
	"github.com/keep-network/keep-core/pkg/beacon/event"
	"github.com/keep-network/keep-core/pkg/chain"
	"github.com/keep-network/keep-core/pkg/chain/ethereum"
	"github.com/keep-network/keep-core/pkg/chain/local_v1"
	"github.com/keep-network/keep-core/pkg/protocol/group"
	"github.com/keep-network/keep-core/pkg/protocol/inactivity"
	"github.com/keep-network/keep-core/pkg/subscription"
	"github.com/keep-network/keep-core/pkg/tbtc"
	"github.com/keep-network/keep-core/pkg/tecdsa"
	"github.com/keep-network/keep-core/pkg/tecdsa/dkg"

	"verifharness/lib"
)

var logger = log.Logger("verif-c47")

type evJ struct {
	T string `json:"t"` // head | competing | timeout
	B uint64 `json:"b"`
}

type input struct {
	Fn        string   `json:"fn"`   // slots | run | queue
	Kind      string   `json:"kind"` // beacon-dkg | relay-entry | tbtc-dkg | approval | inactivity
	Ref       uint64   `json:"ref"`
	Step      uint64   `json:"step"`
	N         int      `json:"n"`
	Timeout   uint64   `json:"timeout"`
	Entry     string   `json:"entry"` // hex, big endian
	Challenge uint64   `json:"challenge"`
	Prec      uint64   `json:"prec"`
	Submitter int      `json:"submitter"`
	Members   []int    `json:"members"`
	Pre       bool     `json:"pre"`
	Hist      []evJ    `json:"hist"`
	Queue     []uint64 `json:"queue"` // member, first, n
}

// ------------------------------------------------------------------ fake chain / block counter

type waiter struct {
	block uint64
	ch    chan uint64
	fired bool
}

type env struct {
	mu       sync.Mutex
	head     uint64
	waiters  []*waiter
	slotCh   chan uint64 // blocks the routine asked to wait for
	submitCh chan uint64 // head at each submission call
	unsubCh  chan struct{}
	handlers map[int]func()
	nextH    int
	in       input
	pre      bool
}

func newEnv(in input, pre bool, head uint64) *env {
	return &env{head: head, slotCh: make(chan uint64, 64), submitCh: make(chan uint64, 64),
		unsubCh: make(chan struct{}, 64), handlers: map[int]func(){}, in: in, pre: pre}
}

func (e *env) register(block uint64) *waiter {
	e.mu.Lock()
	defer e.mu.Unlock()
	w := &waiter{block: block, ch: make(chan uint64, 1)}
	if e.head >= block {
		w.fired = true
		w.ch <- e.head
	}
	e.waiters = append(e.waiters, w)
	e.slotCh <- block
	return w
}

// advance moves the head and fires the waiters that became due; returns how many fired.
func (e *env) advance(b uint64) int {
	e.mu.Lock()
	defer e.mu.Unlock()
	e.head = b
	n := 0
	for _, w := range e.waiters {
		if !w.fired && w.block <= b {
			w.fired = true
			w.ch <- b
			n++
		}
	}
	return n
}

func (e *env) submitted() {
	e.mu.Lock()
	h := e.head
	e.mu.Unlock()
	e.submitCh <- h
}

func (e *env) subscribe(h func()) subscription.EventSubscription {
	e.mu.Lock()
	id := e.nextH
	e.nextH++
	e.handlers[id] = h
	e.mu.Unlock()
	return subscription.NewEventSubscription(func() {
		e.mu.Lock()
		_, was := e.handlers[id]
		delete(e.handlers, id)
		e.mu.Unlock()
		if was {
			e.unsubCh <- struct{}{}
		}
	})
}

func (e *env) currentHandlers() []func() {
	e.mu.Lock()
	defer e.mu.Unlock()
	var hs []func()
	for _, h := range e.handlers {
		hs = append(hs, h)
	}
	return hs
}

// chain.BlockCounter
func (e *env) WaitForBlockHeight(b uint64) error { <-e.register(b).ch; return nil }
func (e *env) BlockHeightWaiter(b uint64) (<-chan uint64, error) {
	return e.register(b).ch, nil
}
func (e *env) CurrentBlock() (uint64, error) {
	e.mu.Lock()
	defer e.mu.Unlock()
	return e.head, nil
}
func (e *env) WatchBlocks(ctx context.Context) <-chan uint64 { return make(chan uint64) }

// the waitForBlockFn handed to the pkg/tbtc routines: like node.waitForBlockHeight it returns
// nil when the block is reached or the context is done
func (e *env) waitFn(ctx context.Context, b uint64) error {
	w := e.register(b)
	select {
	case <-w.ch:
	case <-ctx.Done():
	}
	return nil
}

// beacon chain fake: only the methods the routines use; anything else panics (nil embedded)
type beaconFake struct {
	beaconchain.Interface
	e *env
}

func (c *beaconFake) GetConfig() *beaconchain.Config {
	return &beaconchain.Config{GroupSize: c.e.in.N, HonestThreshold: c.e.in.N/2 + 1,
		ResultPublicationBlockStep: c.e.in.Step, RelayEntryTimeout: c.e.in.Timeout}
}
func (c *beaconFake) OnDKGResultSubmitted(h func(*event.DKGResultSubmission)) subscription.EventSubscription {
	return c.e.subscribe(func() { h(&event.DKGResultSubmission{BlockNumber: c.e.headNow()}) })
}
func (c *beaconFake) IsGroupRegistered([]byte) (bool, error) { return c.e.pre, nil }
func (c *beaconFake) SubmitDKGResult(beaconchain.GroupMemberIndex, *beaconchain.DKGResult,
	map[beaconchain.GroupMemberIndex][]byte) error {
	c.e.submitted()
	return nil
}
func (c *beaconFake) SubmitRelayEntry([]byte) error    { c.e.submitted(); return nil }
func (c *beaconFake) IsEntryInProgress() (bool, error) { return true, nil }

func (e *env) headNow() uint64 { e.mu.Lock(); defer e.mu.Unlock(); return e.head }

// tbtc chain fake
type tbtcFake struct {
	tbtc.Chain
	e *env
}

func (c *tbtcFake) GetDKGState() (tbtc.DKGState, error) {
	if c.e.pre {
		return tbtc.Idle, nil
	}
	return tbtc.AwaitingResult, nil
}
func (c *tbtcFake) AssembleDKGResult(submitter group.MemberIndex, _ *ecdsaPub, _ []group.MemberIndex,
	_ []group.MemberIndex, _ map[group.MemberIndex][]byte, _ *tbtc.GroupSelectionResult) (*tbtc.DKGChainResult, error) {
	return &tbtc.DKGChainResult{SubmitterMemberIndex: submitter}, nil
}
func (c *tbtcFake) IsDKGResultValid(*tbtc.DKGChainResult) (bool, error) { return true, nil }
func (c *tbtcFake) BlockCounter() (chain.BlockCounter, error)           { return c.e, nil }
func (c *tbtcFake) SubmitDKGResult(*tbtc.DKGChainResult) error          { c.e.submitted(); return nil }
func (c *tbtcFake) DKGParameters() (*tbtc.DKGParameters, error) {
	return &tbtc.DKGParameters{SubmissionTimeoutBlocks: 1000, ChallengePeriodBlocks: c.e.in.Challenge,
		ApprovePrecedencePeriodBlocks: c.e.in.Prec}, nil
}
func (c *tbtcFake) OnDKGResultApproved(h func(*tbtc.DKGResultApprovedEvent)) subscription.EventSubscription {
	return c.e.subscribe(func() { h(&tbtc.DKGResultApprovedEvent{BlockNumber: c.e.headNow()}) })
}
func (c *tbtcFake) ApproveDKGResult(*tbtc.DKGChainResult) error { c.e.submitted(); return nil }
func (c *tbtcFake) GetWallet([20]byte) (*tbtc.WalletChainData, error) {
	return &tbtc.WalletChainData{EcdsaWalletID: [32]byte{7}}, nil
}
func (c *tbtcFake) GetInactivityClaimNonce([32]byte) (*big.Int, error) {
	if c.e.pre {
		return big.NewInt(6), nil
	}
	return big.NewInt(5), nil
}
func (c *tbtcFake) AssembleInactivityClaim([32]byte, []group.MemberIndex, map[group.MemberIndex][]byte,
	bool) (*tbtc.InactivityClaim, error) {
	return &tbtc.InactivityClaim{}, nil
}
func (c *tbtcFake) SubmitInactivityClaim(*tbtc.InactivityClaim, *big.Int, []uint32) error {
	c.e.submitted()
	return nil
}

// ------------------------------------------------------------------ one run of one member

type obs struct {
	Slot      *uint64 `json:"slot"`
	SubmitIdx int     `json:"submitIdx"` // -1: no submission
	SubmitAt  uint64  `json:"submitAt"`
	Exit      string  `json:"exit"` // ExNil | ExErr | ExWaiting | Panic
	Delivered int     `json:"delivered"`
	Note      string  `json:"note,omitempty"`
}

var (
	walletKey = func() *ecdsaPub {
		_, pub := btcec.PrivKeyFromBytes([]byte{1, 2, 3, 4, 5, 6, 7, 8, 9, 10, 11, 12, 13, 14, 15, 16,
			17, 18, 19, 20, 21, 22, 23, 24, 25, 26, 27, 28, 29, 30, 31, 32})
		return pub.ToECDSA()
	}()
)

func sigs(n int) map[group.MemberIndex][]byte {
	m := map[group.MemberIndex][]byte{}
	for i := 1; i <= n; i++ {
		m[group.MemberIndex(i)] = []byte{byte(i)}
	}
	return m
}

func entryBytes(h string) []byte {
	b, _ := hex.DecodeString(h)
	return b
}

// execute runs the real routine for one member. hist[0] must be a head event: the chain head at
// the moment of the call.
func execute(in input, member int, pre bool, hist []evJ) (o obs) {
	o.SubmitIdx = -1
	if len(hist) == 0 || hist[0].T != "head" {
		o.Exit, o.Note = "Panic", "history must start with a head event"
		return
	}
	e := newEnv(in, pre, hist[0].B)
	done := make(chan error, 4)
	ctx, cancel := context.WithCancel(context.Background())
	defer cancel()
	submittedCh := make(chan uint64)
	timeoutCh := make(chan uint64)
	guard := func(f func() error) {
		go func() {
			defer func() {
				if r := recover(); r != nil {
					done <- fmt.Errorf("PANIC: %v", r)
				}
			}()
			done <- f()
		}()
	}
	gp := &tbtc.GroupParameters{GroupSize: 100, GroupQuorum: 90, HonestThreshold: 51}
	switch in.Kind {
	case "beacon-dkg":
		guard(func() error {
			return result.NewSubmittingMember(logger, group.MemberIndex(member)).SubmitDKGResult(
				&beaconchain.DKGResult{GroupPublicKey: []byte{1, 2, 3}}, sigs(in.N),
				&beaconFake{e: e}, e, in.Ref)
		})
	case "relay-entry":
		guard(func() error {
			return entry.VerifC47SubmitRelayEntry(logger, &beaconFake{e: e}, e, group.MemberIndex(member),
				entryBytes(in.Entry), []byte{9}, in.Ref, submittedCh, timeoutCh)
		})
	case "tbtc-dkg":
		pt := crypto.NewECPointNoCurveCheck(walletKey.Curve, walletKey.X, walletKey.Y)
		res := &dkg.Result{Group: group.NewGroup(49, 100),
			PrivateKeyShare: tecdsa.NewPrivateKeyShare(keygen.LocalPartySaveData{ECDSAPub: pt})}
		guard(func() error {
			return tbtc.VerifC47SubmitDkgResult(ctx, &tbtcFake{e: e}, gp, nil, e.waitFn,
				group.MemberIndex(member), res, sigs(100))
		})
	case "inactivity":
		claim := inactivity.NewClaimPreimage(big.NewInt(5), walletKey, []group.MemberIndex{3}, true)
		guard(func() error {
			return tbtc.VerifC47SubmitInactivityClaim(ctx, &tbtcFake{e: e}, gp, []uint32{1, 2, 3}, e.waitFn,
				group.MemberIndex(member), claim, sigs(100))
		})
	case "approval":
		size := 100
		if member > size {
			size = member // the uint8 edge: seat 255 of a (hypothetical) 255-seat group
		}
		members := make(chain.OperatorIDs, size)
		for i := range members {
			members[i] = chain.OperatorID(1000 + i)
		}
		members[member-1] = 77
		res := &tbtc.DKGChainResult{SubmitterMemberIndex: group.MemberIndex(in.Submitter), Members: members}
		func() {
			defer func() {
				if r := recover(); r != nil {
					done <- fmt.Errorf("PANIC: %v", r)
				}
			}()
			tbtc.VerifC47ExecuteDkgValidation(&tbtcFake{e: e}, func() (chain.OperatorID, error) { return 77, nil },
				e.waitFn, big.NewInt(1), in.Ref, res, [32]byte{})
		}()
		// the approval goroutine is finished when it drops its subscription
		go func() { <-e.unsubCh; done <- nil }()
	default:
		o.Exit, o.Note = "Panic", "unknown kind"
		return
	}

	finished := false
	curIdx := 0
	record := func(h uint64) {
		if o.SubmitIdx == -1 {
			o.SubmitIdx, o.SubmitAt = curIdx, h
		} else {
			o.Note += fmt.Sprintf(" second submission at event %d;", curIdx)
			o.SubmitIdx = -2
		}
	}
	finish := func(err error) {
		finished = true
		if o.Slot == nil { // registering the slot happens-before the routine's return as well
			select {
			case s := <-e.slotCh:
				o.Slot = &s
			default:
			}
		}
		// a submission call happens-before the routine's return: collect what is already there
		for more := true; more; {
			select {
			case h := <-e.submitCh:
				record(h)
			default:
				more = false
			}
		}
		if err == nil {
			o.Exit = "ExNil"
		} else if len(err.Error()) >= 6 && err.Error()[:6] == "PANIC:" {
			o.Exit, o.Note = "Panic", err.Error()
		} else {
			o.Exit, o.Note = "ExErr", err.Error()
		}
	}
	// wait until the routine has returned, recording submissions made meanwhile
	untilDone := func() {
		for !finished {
			select {
			case h := <-e.submitCh:
				record(h)
			case err := <-done:
				finish(err)
			}
		}
	}
	// consequence of a fired eligibility signal: a submission call and / or the routine returning
	consequence := func() {
		select {
		case h := <-e.submitCh:
			record(h)
			if in.Kind != "relay-entry" {
				untilDone()
			}
		case err := <-done:
			finish(err)
		}
	}
	competing := func() {
		switch in.Kind {
		case "tbtc-dkg", "inactivity":
			cancel()
		case "relay-entry":
			select {
			case submittedCh <- e.headNow():
			case err := <-done:
				finish(err)
				return
			}
		default: // subscription handlers (beacon-dkg: blocks until the select takes the event)
			for _, h := range e.currentHandlers() {
				go h()
			}
		}
		// the routine must now leave; a submission made instead is recorded
		untilDone()
	}

	// event 0: the head at call time
	select {
	case s := <-e.slotCh:
		o.Slot = &s
		if e.headNow() >= s {
			consequence()
		}
	case err := <-done:
		finish(err)
	}
	o.Delivered = 1
	for i := 1; i < len(hist) && !finished; i++ {
		ev := hist[i]
		o.Delivered = i + 1
		curIdx = i
		switch ev.T {
		case "head":
			if e.advance(ev.B) > 0 {
				consequence()
			}
		case "competing":
			competing()
		case "timeout":
			select {
			case timeoutCh <- ev.B:
				untilDone()
			case err := <-done:
				finish(err)
			}
		}
	}
	if !finished {
		// clean up outside the case
		saveIdx, saveAt, saveNote := o.SubmitIdx, o.SubmitAt, o.Note
		competing()
		o.SubmitIdx, o.SubmitAt, o.Note = saveIdx, saveAt, saveNote
		o.Exit = "ExWaiting"
	}
	return o
}

type ecdsaPub = ecdsa.PublicKey

// ------------------------------------------------------------------ rendering

func kindCoq(k string) string {
	return map[string]string{"beacon-dkg": "KBeaconDkg", "relay-entry": "KRelay", "tbtc-dkg": "KTbtcDkg",
		"approval": "KApproval", "inactivity": "KInactivity"}[k]
}

func entryInt(in input) *big.Int { return new(big.Int).SetBytes(entryBytes(in.Entry)) }

func paramsCoq(in input) string {
	return fmt.Sprintf("{| p_kind := %s; p_ref := %s; p_step := %s; p_n := %s; p_timeout := %s; p_entry := %s; "+
		"p_challenge := %s; p_prec := %s; p_submitter := %s |}", kindCoq(in.Kind), lib.ZU(in.Ref), lib.ZU(in.Step),
		lib.Z(int64(in.N)), lib.ZU(in.Timeout), lib.ZBig(entryInt(in)), lib.ZU(in.Challenge), lib.ZU(in.Prec),
		lib.Z(int64(in.Submitter)))
}

func histCoq(h []evJ) string {
	items := make([]string, len(h))
	for i, e := range h {
		switch e.T {
		case "head":
			items[i] = "Head " + lib.ZU(e.B)
		case "competing":
			items[i] = "Competing"
		default:
			items[i] = "Timeout " + lib.ZU(e.B)
		}
	}
	return lib.List(items)
}

func obsCoq(o obs) string {
	slot := "None"
	if o.Slot != nil {
		slot = lib.Some(lib.ZU(*o.Slot))
	}
	sub := "None"
	if o.SubmitIdx >= 0 {
		sub = lib.Some(lib.Pair(lib.Nat(o.SubmitIdx), lib.ZU(o.SubmitAt)))
	} else if o.SubmitIdx == -2 { // submitted twice: report an impossible submission
		sub = lib.Some(lib.Pair(lib.Nat(999999), lib.ZU(0)))
	}
	ex := o.Exit
	if ex == "Panic" { // a panic is reported as a submission that can never be right
		sub = lib.Some(lib.Pair(lib.Nat(999999), lib.ZU(0)))
		ex = "ExErr"
	}
	return fmt.Sprintf("{| o_slot := %s; o_submit := %s; o_exit := %s |}", slot, sub, ex)
}

func run(in input, em *lib.Emitter, id string) {
	switch in.Fn {
	case "queue":
		m, f, n := in.Queue[0], in.Queue[1], in.Queue[2]
		q := entry.VerifC47SubmissionQueueIndex(m, f, n)
		late := "none"
		if q >= n {
			late = "other"
			if m == n {
				late = "last"
			}
		}
		em.Tally("queue")
		em.Case(lib.Case{ID: id, Coq: fmt.Sprintf("(CQueue %s %s %s %s)", lib.ZU(m), lib.ZU(f), lib.ZU(n), lib.ZU(q)),
			Key: fmt.Sprintf("queue|%d|%d|%d", m, f, n), Nontrivial: f > 0 && m < f,
			Sig: map[string]interface{}{"fn": "relay-entry", "what": "queue", "entry_mod_n": f, "late": late, "dup": false, "early": false},
			In:  in, Out: q})
	case "slots":
		var items []string
		outs := map[string]interface{}{}
		seen := map[uint64]int{}
		dup := false
		late := "none"
		early := false
		for _, m := range in.Members {
			h0 := in.Ref
			if (in.Kind == "beacon-dkg" || in.Kind == "relay-entry") && in.Ref > 0 {
				h0 = in.Ref - 1
			}
			o := execute(in, m, false, []evJ{{"head", h0}, {"competing", 0}})
			if o.Slot == nil {
				outs[fmt.Sprint(m)] = o
				items = append(items, lib.Pair(lib.Z(int64(m)), lib.ZU(0))) // no slot observed: impossible slot 0
				continue
			}
			s := *o.Slot
			outs[fmt.Sprint(m)] = s
			items = append(items, lib.Pair(lib.Z(int64(m)), lib.ZU(s)))
			if isEarly(in, m, s) {
				early = true
			}
			em.Tally("slots-seat-" + seatClass(m))
			if prev, ok := seen[s]; ok {
				shareOK := in.Kind == "approval" && in.Prec == 0 && (prev == in.Submitter || m == in.Submitter)
				if !shareOK {
					dup = true
				}
			}
			seen[s] = m
			if in.Kind == "relay-entry" && s >= in.Ref+in.Timeout {
				if m == in.N && late == "none" {
					late = "last"
				} else {
					late = "other"
				}
			}
		}
		sig := map[string]interface{}{"fn": in.Kind, "what": "slots", "dup": dup, "early": early}
		nontrivial := len(in.Members) >= 2
		if in.Kind == "relay-entry" {
			r := new(big.Int).Mod(entryInt(in), big.NewInt(int64(in.N))).Uint64()
			sig["entry_mod_n"] = r
			sig["late"] = late
			em.Tally(fmt.Sprintf("slots-relay-entry-mod-n-%s", map[bool]string{true: "zero", false: "nonzero"}[r == 0]))
		}
		if in.Kind == "approval" {
			em.Tally(fmt.Sprintf("slots-approval-prec-%s", map[bool]string{true: "zero", false: "positive"}[in.Prec == 0]))
		}
		em.Tally("slots-" + in.Kind)
		em.Case(lib.Case{ID: id, Coq: fmt.Sprintf("(CSlots %s %s)", paramsCoq(in), lib.List(items)),
			Key:        fmt.Sprintf("slots|%s|%d|%d|%d|%s|%d|%d|%d|%v", in.Kind, in.Ref, in.Step, in.N, in.Entry, in.Challenge, in.Prec, in.Submitter, in.Members),
			Nontrivial: nontrivial, Sig: sig, In: in, Out: outs})
	default: // run
		m := in.Members[0]
		o := execute(in, m, in.Pre, in.Hist)
		hist := in.Hist
		if o.Delivered < len(hist) {
			hist = hist[:o.Delivered]
		}
		hasComp := false
		for _, e := range hist {
			if e.T != "head" {
				hasComp = true
			}
		}
		em.Tally("run-" + in.Kind)
		em.Tally("run-exit-" + o.Exit)
		early := false
		if o.SubmitIdx >= 0 {
			em.Tally("run-submitted")
			em.Tally("run-submitted-seat-" + seatClass(m))
			early = isEarly(in, m, o.SubmitAt)
		}
		em.Tally("run-seat-" + seatClass(m))
		em.Case(lib.Case{ID: id, Coq: fmt.Sprintf("(CRun %s %s %s %s %s)", paramsCoq(in), lib.Z(int64(m)), lib.Bool(in.Pre),
			histCoq(hist), obsCoq(o)),
			Key:        fmt.Sprintf("run|%s|%d|%d|%d|%s|%d|%d|%d|%d|%v|%v", in.Kind, in.Ref, in.Step, in.N, in.Entry, in.Challenge, in.Prec, in.Submitter, m, in.Pre, hist),
			Nontrivial: hasComp && len(hist) >= 3,
			Sig:        map[string]interface{}{"fn": in.Kind, "what": "run", "pre": in.Pre, "panic": o.Exit == "Panic", "early": early},
			In:         in, Out: o})
	}
}

// ------------------------------------------------------------------ generation

// configurations come from the real chain handles' GetConfig
var (
	localCfg = map[int]*beaconchain.Config{}
)

func beaconConfig(n int) *beaconchain.Config {
	if n == 64 {
		return (&ethereum.BeaconChain{}).GetConfig()
	}
	if c, ok := localCfg[n]; ok {
		return c
	}
	c := local_v1.Connect(n, n/2+1).GetConfig()
	localCfg[n] = c
	return c
}

func allMembers(n int) []int {
	ms := make([]int, n)
	for i := range ms {
		ms[i] = i + 1
	}
	return ms
}

func someMembers(r *lib.Rng, n, k int) []int {
	if k >= n {
		return allMembers(n)
	}
	p := r.Perm(n)
	ms := make([]int, k)
	for i := range ms {
		ms[i] = p[i] + 1
	}
	return ms
}

func randEntry(r *lib.Rng, n int) string {
	switch r.Intn(5) {
	case 0: // multiple of the group size
		k := new(big.Int).SetBytes(r.Bytes(r.Range(1, 31)))
		return hex.EncodeToString(k.Mul(k, big.NewInt(int64(n))).Bytes())
	case 1: // small
		return hex.EncodeToString(big.NewInt(int64(r.Intn(4 * n))).Bytes())
	case 2: // = -1 mod n : first submitter is the last 0-based index
		k := new(big.Int).SetBytes(r.Bytes(8))
		k.Mul(k, big.NewInt(int64(n)))
		k.Add(k, big.NewInt(int64(n-1)))
		return hex.EncodeToString(k.Bytes())
	default: // a BLS signature sized value
		return hex.EncodeToString(r.Bytes(32))
	}
}

func randRef(r *lib.Rng) uint64 {
	switch r.Intn(5) {
	case 0:
		return uint64(r.Intn(50))
	case 1:
		return 1<<62 - 1 - uint64(r.Intn(1000))
	default:
		return 15_000_000 + uint64(r.Intn(10_000_000))
	}
}

func genParams(r *lib.Rng, kind string) input {
	in := input{Kind: kind, Ref: randRef(r)}
	switch kind {
	case "beacon-dkg", "relay-entry":
		ns := []int{64, 64, 3, 5, 8, 13, 64, 100, 1, 2, 100, 255}
		n := ns[r.Intn(len(ns))]
		c := beaconConfig(n)
		in.N, in.Step, in.Timeout = c.GroupSize, c.ResultPublicationBlockStep, c.RelayEntryTimeout
		if kind == "relay-entry" {
			in.Entry = randEntry(r, n)
		}
	case "approval":
		in.Challenge = []uint64{0, 1, 10, 11520, 100}[r.Intn(5)]
		in.Prec = []uint64{0, 0, 1, 20, 5760, 15}[r.Intn(6)]
		in.Submitter = r.Range(1, 100)
		if r.Chance(1, 4) {
			in.Submitter = 1
		}
	}
	return in
}

func slotGuess(in input, m int) uint64 { // only to aim the generated heads around the slot
	switch in.Kind {
	case "beacon-dkg":
		return in.Ref + uint64(m-1)*in.Step
	case "relay-entry":
		f := new(big.Int).Mod(entryInt(in), big.NewInt(int64(in.N))).Uint64()
		q := uint64(m) - f
		if uint64(m) < f {
			q = uint64(m) + uint64(in.N) - f
		}
		return in.Ref + q*in.Step
	case "tbtc-dkg":
		return in.Ref + uint64(m-1)*3
	case "inactivity":
		return in.Ref + uint64(m-1)*2
	default:
		if m == in.Submitter {
			return in.Ref + in.Challenge + 1
		}
		return in.Ref + in.Challenge + 1 + in.Prec + uint64(m-1)*15
	}
}

// docSlot is the documented slot "reference + (seat-1)*step" in unbounded arithmetic. It only
// labels cases (Sig "early", tallies) and aims histories; the verdict is Coq's (doc_slot).
func docSlot(in input, m int) *big.Int {
	u := func(x uint64) *big.Int { return new(big.Int).SetUint64(x) }
	mul := func(a, b *big.Int) *big.Int { return new(big.Int).Mul(a, b) }
	add := func(a, b *big.Int) *big.Int { return new(big.Int).Add(a, b) }
	seat := big.NewInt(int64(m - 1))
	switch in.Kind {
	case "beacon-dkg":
		return add(u(in.Ref), mul(seat, u(in.Step)))
	case "relay-entry":
		f := new(big.Int).Mod(entryInt(in), big.NewInt(int64(in.N))).Int64()
		q := int64(m) - f
		if int64(m) < f {
			q = int64(m) + int64(in.N) - f
		}
		return add(u(in.Ref), mul(big.NewInt(q), u(in.Step)))
	case "tbtc-dkg":
		return add(u(in.Ref), mul(seat, big.NewInt(3)))
	case "inactivity":
		return add(u(in.Ref), mul(seat, big.NewInt(2)))
	default:
		start := add(add(u(in.Ref), u(in.Challenge)), big.NewInt(1))
		if m == in.Submitter {
			return start
		}
		return add(add(start, u(in.Prec)), mul(seat, big.NewInt(15)))
	}
}

func isEarly(in input, m int, block uint64) bool {
	return new(big.Int).SetUint64(block).Cmp(docSlot(in, m)) < 0
}

// seat classes: the first seats, the last seat of the real groups (64 beacon, 100 tBTC), seats
// whose delay no longer fits narrower integer types (seat-1 times 2, 3, 15 beyond 255), and the
// uint8 edge 255
func seatClass(m int) string {
	switch {
	case m == 255:
		return "255"
	case m > 100:
		return "101-254"
	case m >= 87:
		return "87-100"
	case m >= 19:
		return "19-86"
	}
	return "1-18"
}

// seatsUpTo: 1..100 and the uint8 edge 255 (bounded by the group size where the routine
// requires member <= n)
func seatsUpTo(limit int) []int {
	var ms []int
	for m := 1; m <= 100 && m <= limit; m++ {
		ms = append(ms, m)
	}
	if limit >= 255 {
		ms = append(ms, 255)
	}
	return ms
}

func pickSeat(r *lib.Rng, limit int) int {
	clamp := func(m int) int {
		if m > limit {
			return limit
		}
		return m
	}
	switch r.Intn(8) {
	case 0:
		return 1
	case 1:
		return clamp(255)
	case 2:
		return clamp(r.Range(19, 100))
	case 3:
		return clamp(r.Range(87, 100))
	case 4:
		return clamp(r.Range(129, 255))
	case 5:
		return clamp(100)
	}
	return clamp(r.Range(1, 100))
}

func genHist(r *lib.Rng, in input, m int) []evJ {
	s := slotGuess(in, m)
	h0 := in.Ref
	if in.Kind == "beacon-dkg" || in.Kind == "relay-entry" || in.Kind == "approval" {
		switch r.Intn(4) {
		case 0:
			if in.Ref > 0 {
				h0 = in.Ref - 1
			}
		case 1: // the node is late: the head is already past the slot
			h0 = s + uint64(r.Intn(3))
		}
	}
	hist := []evJ{{"head", h0}}
	cur := h0
	n := r.Range(1, 7)
	mode := r.Intn(4) // 0: competing early, 1: reach slot, 2: stop just before the slot, 3: random
	for i := 0; i < n; i++ {
		switch {
		case mode == 0 && i == r.Intn(n):
			hist = append(hist, evJ{"competing", 0})
		case mode == 2 && cur+1 >= s:
			hist = append(hist, evJ{"competing", 0})
		default:
			step := uint64(1)
			if s > cur+1 && r.Chance(1, 2) {
				step = (s - cur) / uint64(r.Range(1, 3))
				if step == 0 {
					step = 1
				}
				if mode == 2 && cur+step >= s {
					step = s - cur - 1
					if step == 0 {
						step = 1
					}
				}
			}
			cur += step
			hist = append(hist, evJ{"head", cur})
		}
	}
	if in.Kind == "relay-entry" {
		switch r.Intn(3) {
		case 0:
			hist = append(hist, evJ{"timeout", in.Ref + in.Timeout})
		case 1:
			hist = append(hist, evJ{"head", cur + uint64(r.Intn(5))}, evJ{"competing", 0})
		}
	} else if r.Chance(2, 3) {
		hist = append(hist, evJ{"competing", 0})
	}
	return hist
}

var kinds = []string{"beacon-dkg", "relay-entry", "tbtc-dkg", "approval", "inactivity"}

func groupSize(in input) int {
	switch in.Kind {
	case "beacon-dkg", "relay-entry":
		return in.N
	}
	return 100
}

// seatLimit: the highest member index the routine accepts for these parameters. Only the relay
// entry routine relates the index to the group size (queue positions); everywhere else the
// index is a bare group.MemberIndex (uint8).
func seatLimit(in input) int {
	if in.Kind == "relay-entry" {
		return in.N
	}
	return 255
}

func main() {
	o := lib.ParseOpts()
	em := lib.NewEmitter()
	if o.Replay != "" {
		var in input
		if err := lib.LoadReplay(o.Replay, &in); err != nil {
			fmt.Fprintln(os.Stderr, err)
			os.Exit(2)
		}
		run(in, em, "replay")
		em.Close("replay", nil)
		return
	}
	rng := lib.NewRng(o.Seed)
	eth := (&ethereum.BeaconChain{}).GetConfig()

	// --- corpus
	{
		// the known defect: production beacon configuration, entry divisible by the group size
		run(input{Fn: "slots", Kind: "relay-entry", Ref: 1000, N: eth.GroupSize, Step: eth.ResultPublicationBlockStep,
			Timeout: eth.RelayEntryTimeout, Entry: "80", Members: allMembers(eth.GroupSize)}, em, "corpus-relay-entry-divisible")
		run(input{Fn: "slots", Kind: "relay-entry", Ref: 1000, N: eth.GroupSize, Step: eth.ResultPublicationBlockStep,
			Timeout: eth.RelayEntryTimeout, Entry: "82", Members: allMembers(eth.GroupSize)}, em, "corpus-relay-entry-130")
		run(input{Fn: "queue", Queue: []uint64{64, 0, 64}}, em, "corpus-queue-last-first0")
		run(input{Fn: "queue", Queue: []uint64{1, 2, 5}}, em, "corpus-queue-wrap")
		run(input{Fn: "run", Kind: "relay-entry", Ref: 1000, N: 64, Step: 1, Timeout: 64, Entry: "80", Members: []int{64},
			Hist: []evJ{{"head", 999}, {"head", 1063}, {"timeout", 1064}}}, em, "corpus-relay-last-member-times-out")
		run(input{Fn: "run", Kind: "relay-entry", Ref: 1000, N: 64, Step: 1, Timeout: 64, Entry: "82", Members: []int{2},
			Hist: []evJ{{"head", 999}, {"head", 1000}, {"head", 1001}, {"competing", 0}}}, em, "corpus-relay-first-submits")
		run(input{Fn: "slots", Kind: "approval", Ref: 500, Challenge: 10, Prec: 0, Submitter: 5, Members: []int{1, 5, 2, 3}}, em, "corpus-approval-prec0")
		run(input{Fn: "slots", Kind: "approval", Ref: 500, Challenge: 10, Prec: 20, Submitter: 1, Members: allMembers(100)}, em, "corpus-approval-all")
		run(input{Fn: "slots", Kind: "tbtc-dkg", Ref: 500, Members: allMembers(100)}, em, "corpus-tbtc-dkg-all")
		run(input{Fn: "slots", Kind: "inactivity", Ref: 500, Members: allMembers(100)}, em, "corpus-inactivity-all")
		run(input{Fn: "slots", Kind: "beacon-dkg", Ref: 500, N: 64, Step: 1, Timeout: 64, Members: allMembers(64)}, em, "corpus-beacon-dkg-all")
		for _, k := range []string{"beacon-dkg", "tbtc-dkg", "inactivity"} {
			run(input{Fn: "run", Kind: k, Ref: 500, N: 64, Step: 1, Timeout: 64, Members: []int{3}, Pre: true,
				Hist: []evJ{{"head", 500}, {"head", 600}}}, em, "corpus-pre-"+k)
			run(input{Fn: "run", Kind: k, Ref: 500, N: 64, Step: 1, Timeout: 64, Members: []int{3},
				Hist: []evJ{{"head", 500}, {"competing", 0}, {"head", 600}}}, em, "corpus-competing-"+k)
			run(input{Fn: "run", Kind: k, Ref: 500, N: 64, Step: 1, Timeout: 64, Members: []int{3},
				Hist: []evJ{{"head", 500}, {"head", 501}, {"head", 600}}}, em, "corpus-reach-"+k)
		}
		run(input{Fn: "run", Kind: "approval", Ref: 500, Challenge: 10, Prec: 20, Submitter: 5, Members: []int{5},
			Hist: []evJ{{"head", 500}, {"head", 510}, {"head", 511}}}, em, "corpus-approval-submitter")
		run(input{Fn: "run", Kind: "approval", Ref: 500, Challenge: 10, Prec: 20, Submitter: 5, Members: []int{2},
			Hist: []evJ{{"head", 500}, {"head", 545}, {"competing", 0}}}, em, "corpus-approval-superseded")
		// high seats: the delay (seat-1)*step exceeds 255; the member must sit through heads that
		// are one uint8 wrap-around below its documented slot (1000+10+1+20+18*15 = 1301)
		run(input{Fn: "run", Kind: "approval", Ref: 1000, Challenge: 10, Prec: 20, Submitter: 1, Members: []int{19},
			Hist: []evJ{{"head", 1000}, {"head", 1045}, {"head", 1300}, {"head", 1301}}}, em, "corpus-approval-seat19-waits-for-its-slot")
		run(input{Fn: "run", Kind: "tbtc-dkg", Ref: 1000, Members: []int{100},
			Hist: []evJ{{"head", 1000}, {"head", 1041}, {"head", 1296}, {"head", 1297}}}, em, "corpus-tbtc-dkg-seat100-waits-for-its-slot")
		run(input{Fn: "run", Kind: "inactivity", Ref: 1000, Members: []int{255},
			Hist: []evJ{{"head", 1000}, {"head", 1252}, {"head", 1507}, {"head", 1508}}}, em, "corpus-inactivity-seat255-waits-for-its-slot")
		run(input{Fn: "run", Kind: "beacon-dkg", Ref: 1000, N: 64, Step: 3, Timeout: 192, Members: []int{100},
			Hist: []evJ{{"head", 999}, {"head", 1041}, {"head", 1296}, {"head", 1297}}}, em, "corpus-beacon-dkg-seat100-waits-for-its-slot")
	}

	// --- seat magnitude, closed form: the slot every routine computes for seats 1..100 and the
	// uint8 edge 255 (tBTC groups have 100 seats, beacon groups 64; group.MemberIndex is a uint8),
	// once per routine for ALL seats 1..255
	{
		type setting struct {
			name string
			in   input
		}
		var settings []setting
		loc100, loc255 := beaconConfig(100), beaconConfig(255)
		refs := []uint64{0, 17_000_000, 1<<62 - 5000}
		for i, ref := range refs {
			settings = append(settings,
				setting{fmt.Sprintf("beacon-dkg-eth-%d", i), input{Kind: "beacon-dkg", Ref: ref, N: eth.GroupSize,
					Step: eth.ResultPublicationBlockStep, Timeout: eth.RelayEntryTimeout}},
				setting{fmt.Sprintf("tbtc-dkg-%d", i), input{Kind: "tbtc-dkg", Ref: ref}},
				setting{fmt.Sprintf("inactivity-%d", i), input{Kind: "inactivity", Ref: ref}})
		}
		settings = append(settings,
			setting{"beacon-dkg-local", input{Kind: "beacon-dkg", Ref: 20_000_001, N: loc100.GroupSize,
				Step: loc100.ResultPublicationBlockStep, Timeout: loc100.RelayEntryTimeout}},
			setting{"approval-a", input{Kind: "approval", Ref: 1000, Challenge: 10, Prec: 20, Submitter: 1}},
			setting{"approval-b", input{Kind: "approval", Ref: 17_000_000, Challenge: 11520, Prec: 5760, Submitter: 100}},
			setting{"approval-c", input{Kind: "approval", Ref: 1<<62 - 5000, Challenge: 0, Prec: 1, Submitter: 255}},
			setting{"approval-d", input{Kind: "approval", Ref: 0, Challenge: 100, Prec: 15, Submitter: 19}})
		// relay entry: the seat is bounded by the group size; entries 1, n-1 (mod n) and a
		// signature-sized one (entry = 0 mod n is the known finding, generated below as before)
		for _, c := range []*beaconchain.Config{eth, loc100, loc255} {
			for j, e := range []string{"01", hex.EncodeToString(big.NewInt(int64(2*c.GroupSize - 1)).Bytes()),
				hex.EncodeToString(rng.Fork(fmt.Sprintf("seats-entry-%d", c.GroupSize)).Bytes(32))} {
				if new(big.Int).Mod(new(big.Int).SetBytes(entryBytes(e)), big.NewInt(int64(c.GroupSize))).Sign() == 0 {
					e = "01"
				}
				settings = append(settings, setting{fmt.Sprintf("relay-entry-n%d-%d", c.GroupSize, j),
					input{Kind: "relay-entry", Ref: 17_000_000 + uint64(j), N: c.GroupSize, Step: c.ResultPublicationBlockStep,
						Timeout: c.RelayEntryTimeout, Entry: e}})
			}
		}
		everySeat := map[string]bool{}
		for _, st := range settings {
			in := st.in
			in.Fn = "slots"
			limit := seatLimit(in)
			if in.Kind == "relay-entry" {
				in.Members = allMembers(in.N) // all queue positions
			} else if !everySeat[in.Kind] || o.Tier != "quick" {
				everySeat[in.Kind] = true
				in.Members = allMembers(limit)
			} else {
				in.Members = seatsUpTo(limit)
			}
			run(in, em, "seats-"+st.name)
		}
		// ... and through the real submitters / approvers with the fake block counter: heads just
		// below the documented slot of a high seat (one uint8 wrap-around below it, one block
		// below it), then the slot itself
		seats := []int{19, 36, 87, 100, 129, 255}
		if o.Tier != "quick" {
			seats = append(allMembers(100), 129, 172, 200, 254, 255)
		}
		for _, st := range settings {
			if st.in.Kind == "relay-entry" && st.in.N < 255 || (o.Tier == "quick" && (st.name[len(st.name)-1] == '2' || st.name == "approval-c")) {
				continue
			}
			for _, m := range seats {
				in := st.in
				if m > seatLimit(in) {
					continue
				}
				in.Fn, in.Members = "run", []int{m}
				d := docSlot(in, m)
				if !d.IsUint64() || d.Uint64() < in.Ref+2 {
					continue
				}
				s := d.Uint64()
				hist := []evJ{{"head", in.Ref}}
				for _, back := range []uint64{512, 256, 1} {
					if s-back > in.Ref {
						hist = append(hist, evJ{"head", s - back})
					}
				}
				hist = append(hist, evJ{"head", s})
				if in.Kind == "relay-entry" {
					hist = append(hist, evJ{"competing", 0})
				}
				in.Hist = hist
				run(in, em, fmt.Sprintf("seat-run-%s-%d", st.name, m))
			}
		}
	}

	// --- queue index: exhaustive for n <= 9, random beyond
	maxN := 9
	if o.Tier == "quick" {
		maxN = 6
	}
	for n := 1; n <= maxN; n++ {
		for f := 0; f < n; f++ {
			for m := 1; m <= n; m++ {
				run(input{Fn: "queue", Queue: []uint64{uint64(m), uint64(f), uint64(n)}}, em, fmt.Sprintf("queue-%d-%d-%d", n, f, m))
			}
		}
	}
	for i := 0; i < o.Count(60, 600); i++ {
		r := rng.Fork(fmt.Sprintf("queue%d", i))
		n := r.Range(2, 255)
		f := r.Intn(n)
		if r.Chance(1, 4) {
			f = 0
		}
		m := r.Range(1, n)
		if r.Chance(1, 4) {
			m = n
		}
		run(input{Fn: "queue", Queue: []uint64{uint64(m), uint64(f), uint64(n)}}, em, fmt.Sprintf("queue-r%d", i))
	}

	// --- slots of whole groups / member subsets
	for i := 0; i < o.Count(60, 600); i++ {
		r := rng.Fork(fmt.Sprintf("slots%d", i))
		in := genParams(r, kinds[i%len(kinds)])
		in.Fn = "slots"
		n := groupSize(in)
		if r.Chance(1, 2) || n <= 8 {
			in.Members = allMembers(n)
		} else {
			in.Members = someMembers(r, n, r.Range(2, 12))
			if lim := seatLimit(in); lim > n && r.Bool() {
				in.Members = someMembers(r, lim, r.Range(2, 12)) // seats beyond the group size, up to the uint8 edge
			}
			if in.Kind == "approval" && r.Bool() {
				in.Members = append(in.Members[:1], append([]int{in.Submitter}, in.Members[1:]...)...)
				seen := map[int]bool{}
				var ms []int
				for _, m := range in.Members {
					if !seen[m] {
						ms = append(ms, m)
					}
					seen[m] = true
				}
				in.Members = ms
			}
		}
		run(in, em, fmt.Sprintf("slots-%d", i))
	}

	// --- runs with histories
	for i := 0; i < o.Count(400, 6000); i++ {
		r := rng.Fork(fmt.Sprintf("run%d", i))
		in := genParams(r, kinds[i%len(kinds)])
		in.Fn = "run"
		n := groupSize(in)
		m := r.Range(1, n)
		switch r.Intn(5) {
		case 0:
			m = 1
		case 1:
			m = n
		case 2, 3:
			m = pickSeat(r, seatLimit(in))
		}
		in.Members = []int{m}
		if (in.Kind == "beacon-dkg" || in.Kind == "tbtc-dkg" || in.Kind == "inactivity") && r.Chance(1, 8) {
			in.Pre = true
		}
		in.Hist = genHist(r, in, m)
		run(in, em, fmt.Sprintf("run-%d", i))
	}
	em.Close("a case is (slots) the slots the real routines compute for the members of one group and one reference "+
		"block, (run) one member's routine driven through one history of chain heads and competing events, or (queue) one "+
		"call of calculateSubmissionQueueIndex; slots cases are non-trivial with >= 2 members, run cases when the history has "+
		">= 3 events including a competing/timeout event, queue cases when the member precedes the first submitter", nil)
}
