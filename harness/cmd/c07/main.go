// Driver for C07 (tECDSA DKG: one wallet key, excluded members never join).
//
// Two kinds of cases for the Coq model (Model/C07.v):
//   - probe: the real newMember / group marking / six state Receive functions / receivedMessages /
//     CanTransition / identity converter / MisbehavedMembersIndexes driven through the exported
//     wrappers of pkg/tecdsa/dkg/verif_export_c07.go on generated groups and message streams
//     (cheap; thousands),
//   - run: the real dkg.Executor.Execute over pkg/net/local for a 3-of-5 group, with excluded
//     members, excluded members that run the protocol regardless, a second session sharing the
//     broadcast channel, and an interception layer that delays, reorders and duplicates deliveries.
package main

import (
	"fmt"
	"math/big"
	"os"
	"sort"
	"strings"
	"sync"
	"time"

	"github.com/keep-network/keep-core/pkg/protocol/group"
	"github.com/keep-network/keep-core/pkg/tecdsa/dkg"

	"verifharness/cmd/c07/run"
	"verifharness/lib"
)

// ---------------------------------------------------------------- probe cases

type msgIn struct {
	State   int    `json:"state"`
	Kind    int    `json:"kind"`
	Sender  uint8  `json:"sender"`
	Op      int    `json:"op"` // index into the operator pool
	Session string `json:"session"`
}

type probeIn struct {
	Size    int      `json:"size"`
	T       int      `json:"t"`
	Self    uint8    `json:"self"`
	Seed    string   `json:"seed"`
	DQ      run.Idx  `json:"dq"`
	IA      run.Idx  `json:"ia"`
	SeatOp  []int    `json:"seat_op"` // operator pool index per seat
	Session string   `json:"session"`
	Msgs    []msgIn  `json:"msgs"`
	Conv    []string `json:"conv"`
}

type input struct {
	Probe *probeIn `json:"probe,omitempty"`
	Run   *runIn   `json:"run,omitempty"`
}

var opPool []*run.Operator

func pool(n int) []*run.Operator {
	for len(opPool) < n {
		opPool = append(opPool, run.NewOperator())
	}
	return opPool
}

func idxList(l []group.MemberIndex) string {
	v := make([]uint64, len(l))
	for i, x := range l {
		v[i] = uint64(x)
	}
	return lib.ListN(v)
}

func bigOf(s string) *big.Int {
	b, ok := new(big.Int).SetString(s, 10)
	if !ok {
		panic("bad integer " + s)
	}
	return b
}

func runProbe(in *probeIn, em *lib.Emitter, id string) {
	maxOp := 0
	for _, o := range in.SeatOp {
		if o > maxOp {
			maxOp = o
		}
	}
	for _, m := range in.Msgs {
		if m.Op > maxOp {
			maxOp = m.Op
		}
	}
	ops := pool(maxOp + 1)
	// operator identifiers: pool index + 1
	g := run.NewGroup(ops, in.SeatOp)
	sess := map[string]uint64{in.Session: 1}
	sid := func(s string) uint64 {
		if v, ok := sess[s]; ok {
			return v
		}
		sess[s] = uint64(len(sess) + 1)
		return sess[s]
	}
	seed := bigOf(in.Seed)

	type obs struct {
		Panic      string
		Operating  run.Idx
		Misbehaved run.Idx
		Own        *big.Int
		Keys       []*big.Int
		History    []run.Idx
		Received   []run.Idx
		Can        []bool
		Conv       run.Idx
	}
	var o obs
	func() {
		defer func() {
			if r := recover(); r != nil {
				o.Panic = fmt.Sprint(r)
			}
		}()
		p := dkg.VerifNewProbe(run.Logger, seed, in.Self, in.Size, in.T, in.DQ, in.IA, g.Validator, in.Session)
		for i, m := range in.Msgs {
			fm := &run.FakeMessage{Pub: ops[m.Op].PubRaw, P: dkg.VerifNewMessage(m.Kind, m.Sender, m.Session), Seq: uint64(i)}
			if err := p.Receive(m.State, fm); err != nil {
				panic(err)
			}
		}
		o.Operating = p.Operating()
		o.Misbehaved = p.Misbehaved()
		o.Own, o.Keys = p.PartyKeys()
		for k := 0; k < dkg.VerifMessageKinds; k++ {
			o.History = append(o.History, p.History(k))
			o.Received = append(o.Received, p.Received(k))
		}
		for s := 0; s < dkg.VerifStateKinds; s++ {
			o.Can = append(o.Can, p.CanTransition(s))
		}
		for _, c := range in.Conv {
			o.Conv = append(o.Conv, p.KeyToMemberIndex(bigOf(c)))
		}
	}()

	msgs := make([]string, len(in.Msgs))
	stored, rejected := 0, 0
	for i, m := range in.Msgs {
		msgs[i] = fmt.Sprintf("(%s, {| m_kind := %s; m_sender := %s; m_op := %s; m_session := %s; m_body := %s |})",
			lib.N(uint64(m.State)), lib.N(uint64(m.Kind)), lib.N(uint64(m.Sender)), lib.N(uint64(m.Op+1)),
			lib.N(sid(m.Session)), lib.N(uint64(i)))
	}
	for _, h := range o.History {
		stored += len(h)
	}
	rejected = len(in.Msgs) - stored
	seatOps := make([]uint64, len(in.SeatOp))
	for i, s := range in.SeatOp {
		seatOps[i] = uint64(s + 1)
	}
	conv := make([]string, len(in.Conv))
	for i, c := range in.Conv {
		conv[i] = "(" + c + ")%Z"
	}
	lists := func(ls []run.Idx) string {
		s := make([]string, len(ls))
		for i, l := range ls {
			s[i] = idxList(l)
		}
		return lib.List(s)
	}
	own := "None"
	if o.Own != nil {
		own = lib.Some(lib.ZBig(o.Own))
	}
	keys := make([]string, len(o.Keys))
	for i, k := range o.Keys {
		keys[i] = lib.ZBig(k)
	}
	can := make([]string, len(o.Can))
	for i, b := range o.Can {
		can[i] = lib.Bool(b)
	}
	if o.Panic != "" {
		// the model has no panic outcome for the probe: an empty observation never agrees
		em.Tally("probe-panic")
	}
	coq := fmt.Sprintf("(CProbe {| p_size := %s; p_t := %s; p_self := %s; p_seed := %s; p_dq := %s; p_ia := %s; "+
		"p_ops := %s; p_session := 1%%N; p_msgs := %s; p_conv := %s; o_operating := %s; o_misbehaved := %s; "+
		"o_own := %s; o_keys := %s; o_history := %s; o_received := %s; o_can := %s; o_conv := %s |})",
		lib.N(uint64(in.Size)), lib.Z(int64(in.T)), lib.N(uint64(in.Self)), lib.ZBig(seed), idxList(in.DQ), idxList(in.IA),
		lib.ListN(seatOps), lib.List(msgs), lib.List(conv), idxList(o.Operating), idxList(o.Misbehaved),
		own, lib.List(keys), lists(o.History), lists(o.Received), lib.List(can), idxList(o.Conv))
	em.Tally(fmt.Sprintf("probe-size-%03d", (in.Size+9)/10*10))
	em.Tally(fmt.Sprintf("probe-marked-%d", minInt(len(in.DQ)+len(in.IA), 9)))
	em.Case(lib.Case{
		ID:         id,
		Coq:        coq,
		Key:        fmt.Sprintf("probe|%d|%d|%s|%v|%v|%v|%v", in.Size, in.Self, in.Seed, in.DQ, in.IA, in.SeatOp, in.Msgs),
		Nontrivial: stored > 0 && rejected > 0,
		Sig:        map[string]interface{}{"kind": "probe", "panic": o.Panic != ""},
		In:         input{Probe: in},
		Out:        o,
	})
}

func minInt(a, b int) int {
	if a < b {
		return a
	}
	return b
}

func genIdx(r *lib.Rng, size int) uint8 {
	switch r.Intn(12) {
	case 0:
		return 0
	case 1:
		return uint8(size + 1)
	case 2:
		return 255
	case 3:
		return uint8(r.Intn(256))
	}
	if size == 0 {
		return 1
	}
	return uint8(1 + r.Intn(size))
}

func genSeed(r *lib.Rng) string {
	switch r.Intn(6) {
	case 0:
		return "0"
	case 1:
		return fmt.Sprint(r.Intn(300))
	case 2:
		return new(big.Int).SetBytes(r.Bytes(8)).String()
	}
	return new(big.Int).SetBytes(r.Bytes(32)).String()
}

func genProbe(r *lib.Rng) *probeIn {
	size := r.Range(1, 9)
	switch r.Intn(10) {
	case 0:
		size = r.Range(10, 40)
	case 1:
		size = []int{0, 100, 254, 255}[r.Intn(4)]
	}
	in := &probeIn{Size: size, T: r.Range(0, size), Seed: genSeed(r), Session: "s1"}
	nOps := r.Range(1, minInt(size+1, 8))
	for i := 0; i < size; i++ {
		in.SeatOp = append(in.SeatOp, r.Intn(nOps))
	}
	if size > 0 && r.Chance(9, 10) {
		in.Self = uint8(1 + r.Intn(size))
	} else {
		in.Self = genIdx(r, size)
	}
	nEx := 0
	if r.Chance(4, 5) {
		nEx = r.Range(0, minInt(size, 4))
	}
	for i := 0; i < nEx; i++ {
		e := genIdx(r, size)
		if r.Chance(4, 5) && e == in.Self { // Execute never marks the member itself; keep some
			continue
		}
		in.DQ = append(in.DQ, e)
		if r.Chance(1, 8) {
			in.DQ = append(in.DQ, e)
		}
	}
	if r.Chance(1, 6) {
		for i := r.Range(1, 2); i > 0; i-- {
			in.IA = append(in.IA, genIdx(r, size))
		}
	}
	sessions := []string{"s1", "s1", "s1", "s1", "s1", "s2", "S1", "s1 ", "", "s10"}
	nMsgs := r.Range(0, 30)
	if size > 40 {
		nMsgs = r.Range(0, 12)
	}
	for i := 0; i < nMsgs; i++ {
		m := msgIn{State: r.Intn(6), Kind: r.Intn(6), Session: sessions[r.Intn(len(sessions))]}
		if r.Chance(1, 2) {
			m.Kind = r.Intn(2)
		}
		m.Sender = genIdx(r, size)
		switch {
		case size > 0 && m.Sender >= 1 && int(m.Sender) <= size && r.Chance(5, 6):
			m.Op = in.SeatOp[m.Sender-1]
		case r.Chance(1, 2):
			m.Op = r.Intn(nOps)
		default:
			m.Op = nOps + r.Intn(2) // an operator outside the group
		}
		in.Msgs = append(in.Msgs, m)
		if r.Chance(1, 5) { // duplicate / replay in another state
			d := m
			d.State = r.Intn(6)
			in.Msgs = append(in.Msgs, d)
		}
	}
	seed := bigOf(in.Seed)
	for i := r.Range(0, 4); i > 0; i-- {
		var k *big.Int
		switch r.Intn(5) {
		case 0:
			k = new(big.Int).Sub(seed, big.NewInt(int64(r.Intn(3))))
		case 1:
			k = new(big.Int).Add(seed, big.NewInt(int64(250+r.Intn(600))))
		case 2:
			k = new(big.Int).SetBytes(r.Bytes(r.Range(0, 33)))
		default:
			k = new(big.Int).Add(seed, big.NewInt(int64(genIdx(r, size))))
		}
		if k.Sign() < 0 {
			k = big.NewInt(0)
		}
		in.Conv = append(in.Conv, k.String())
	}
	return in
}

// exhaustive small scope: group sizes 1..3, every exclusion subset passed the way Execute passes it
// (all excluded members other than the member itself), every member, and a stream holding every
// (kind in {0,1}) x sender in 0..size+1 x (seat operator | other operator) x (own | other session)
func smallProbes(r *lib.Rng) []*probeIn {
	var out []*probeIn
	for size := 1; size <= 3; size++ {
		for mask := 0; mask < 1<<size; mask++ {
			for self := 1; self <= size; self++ {
				in := &probeIn{Size: size, T: size / 2, Self: uint8(self), Seed: fmt.Sprint(1000 * size), Session: "s1"}
				for i := 0; i < size; i++ {
					in.SeatOp = append(in.SeatOp, i)
					if mask>>i&1 == 1 && i+1 != self {
						in.DQ = append(in.DQ, uint8(i+1))
					}
				}
				var msgs []msgIn
				for kind := 0; kind < 2; kind++ {
					for s := 0; s <= size+1; s++ {
						for _, own := range []bool{true, false} {
							for _, se := range []string{"s1", "s2"} {
								op := size // outsider
								if own && s >= 1 && s <= size {
									op = s - 1
								} else if !own && size > 1 {
									op = s % size
								}
								msgs = append(msgs, msgIn{State: r.Intn(6), Kind: kind, Sender: uint8(s), Op: op, Session: se})
							}
						}
					}
				}
				p := r.Perm(len(msgs))
				for _, j := range p {
					in.Msgs = append(in.Msgs, msgs[j])
				}
				for s := 0; s <= size+1; s++ {
					in.Conv = append(in.Conv, fmt.Sprint(1000*size+s))
				}
				out = append(out, in)
			}
		}
	}
	return out
}

// ---------------------------------------------------------------- run cases

type sessIn struct {
	ID       string    `json:"id"`
	Excluded run.Idx   `json:"excluded"`
	Rogue    run.Idx   `json:"rogue"` // excluded members that run Execute regardless
	Chaos    run.Chaos `json:"chaos"`
}

type runIn struct {
	Size      int      `json:"size"`
	Dishonest int      `json:"dishonest"`
	Seed      string   `json:"seed"`
	SeatOp    []int    `json:"seat_op"`
	Sessions  []sessIn `json:"sessions"`
	BudgetS   int      `json:"budget_s"`
	ChaosSeed uint64   `json:"chaos_seed"`
}

var (
	executorsOnce sync.Once
	executors     []*dkg.Executor
	executorsErr  error
)

func getExecutors() ([]*dkg.Executor, error) {
	executorsOnce.Do(func() {
		fx, err := run.LoadFixtures()
		if err != nil {
			executorsErr = err
			return
		}
		for i := range fx {
			e, err := run.NewExecutor(&fx[i].LocalPreParams, 64)
			if err != nil {
				executorsErr = err
				return
			}
			executors = append(executors, e)
		}
	})
	return executors, executorsErr
}

type emitMu struct {
	sync.Mutex
	em *lib.Emitter
}

func runRun(in *runIn, em *emitMu, id string) {
	execs, err := getExecutors()
	if err != nil {
		fmt.Fprintln(os.Stderr, "fixtures:", err)
		os.Exit(2)
	}
	nOps := 0
	for _, o := range in.SeatOp {
		if o+1 > nOps {
			nOps = o + 1
		}
	}
	ops := make([]*run.Operator, nOps)
	for i := range ops {
		ops[i] = run.NewOperator()
	}
	g := run.NewGroup(ops, in.SeatOp)
	seed := bigOf(in.Seed)
	var sessions []*run.Session
	for _, s := range in.Sessions {
		rs := &run.Session{ID: s.ID, Seed: seed, Excluded: s.Excluded, Chaos: s.Chaos}
		ex := map[uint8]bool{}
		for _, e := range s.Excluded {
			ex[e] = true
		}
		for m := 1; m <= in.Size; m++ {
			if !ex[uint8(m)] {
				rs.Runners = append(rs.Runners, uint8(m))
			}
		}
		rs.Runners = append(rs.Runners, s.Rogue...)
		sessions = append(sessions, rs)
	}
	outs, traffic, err := run.RunDKG(g, in.Dishonest, sessions, execs, lib.NewRng(in.ChaosSeed), time.Duration(in.BudgetS)*time.Second)
	if err != nil {
		fmt.Fprintln(os.Stderr, "run:", err)
		os.Exit(2)
	}
	em.Lock()
	defer em.Unlock()
	for si, s := range in.Sessions {
		ex := map[uint8]bool{}
		for _, e := range s.Excluded {
			ex[e] = true
		}
		keyID := map[string]uint64{}
		var obs []string
		type outObs struct {
			Member     uint8
			Status     string
			Err        string
			Key        string
			Misbehaved run.Idx
			Ks         []string
			Seconds    float64
			Rogue      bool
		}
		var human []outObs
		nDone, nInc := 0, 0
		for _, o := range outs[si] {
			h := outObs{Member: o.Member, Status: o.Status, Err: o.Err, Misbehaved: o.Misbehaved, Seconds: o.Seconds, Rogue: ex[o.Member]}
			if len(o.PubKey) > 0 {
				h.Key = fmt.Sprintf("%x", o.PubKey)
			}
			for _, k := range o.Ks {
				h.Ks = append(h.Ks, k.String())
			}
			human = append(human, h)
			if ex[o.Member] {
				continue // a rogue excluded member: not an operating member, its outcome is not judged
			}
			status := map[string]string{"done": "Done", "error": "Failed", "inconclusive": "Inconclusive", "panic": "Panicked"}[o.Status]
			em.em.Tally("run-member-" + o.Status)
			if o.Status == "done" {
				nDone++
			}
			if o.Status == "inconclusive" {
				nInc++
			}
			kid := uint64(0)
			if len(o.PubKey) > 0 {
				k := string(o.PubKey)
				if _, ok := keyID[k]; !ok {
					keyID[k] = uint64(len(keyID) + 1)
				}
				kid = keyID[k]
			}
			ks := make([]string, len(o.Ks))
			for i, k := range o.Ks {
				ks[i] = lib.ZBig(k)
			}
			share := "0%Z"
			if o.ShareID != nil {
				share = lib.ZBig(o.ShareID)
			}
			obs = append(obs, fmt.Sprintf("{| mo_member := %s; mo_status := %s; mo_key := %s; mo_mis := %s; mo_ks := %s; mo_share := %s |}",
				lib.N(uint64(o.Member)), status, lib.N(kid), idxList(o.Misbehaved), lib.List(ks), share))
		}
		coq := fmt.Sprintf("(CRun {| r_size := %s; r_t := %s; r_seed := %s; r_excluded := %s; r_obs := %s |})",
			lib.N(uint64(in.Size)), lib.Z(int64(in.Dishonest)), lib.ZBig(seed), idxList(s.Excluded), lib.List(obs))
		exs := append([]uint8{}, s.Excluded...)
		sort.Slice(exs, func(i, j int) bool { return exs[i] < exs[j] })
		em.em.Tally(fmt.Sprintf("run-excluded-%d", len(s.Excluded)))
		if nInc > 0 {
			em.em.Tally("run-session-inconclusive")
		}
		one := *in
		em.em.Case(lib.Case{
			ID:         fmt.Sprintf("%s-s%d", id, si),
			Coq:        coq,
			Key:        fmt.Sprintf("run|%s|%v|%v|%d", id, exs, s.Rogue, len(in.Sessions)),
			Nontrivial: nDone >= 2 && (len(s.Excluded) > 0 || len(in.Sessions) > 1),
			Sig: map[string]interface{}{"kind": "run", "excluded": len(s.Excluded), "rogue": len(s.Rogue),
				"sessions": len(in.Sessions), "inconclusive": nInc},
			In:  input{Run: &one},
			Out: map[string]interface{}{"session": s.ID, "members": human, "traffic": traffic[si]},
		})
	}
}

func genRuns(o lib.Opts, rng *lib.Rng) []*runIn {
	var runs []*runIn
	heavy := func(r *lib.Rng) run.Chaos {
		c := run.Chaos{MaxDelayMs: r.Range(50, 400), DupPct: r.Range(10, 50)}
		if r.Bool() {
			c.SlowSeat, c.SlowMs = r.Range(1, 5), r.Range(200, 900)
		}
		return c
	}
	seatOps := func(r *lib.Rng) []int {
		if r.Chance(1, 3) {
			return []int{0, 1, 0, 2, 3} // one operator holds two seats
		}
		return []int{0, 1, 2, 3, 4}
	}
	budget := 900
	if o.Tier == "quick" {
		r := rng.Fork("quick-runs")
		// A: one exclusion given with a duplicate and out-of-range entries; the excluded member runs anyway
		x := uint8(r.Range(1, 5))
		runs = append(runs, &runIn{Size: 5, Dishonest: 2, Seed: genSeed(r), SeatOp: seatOps(r), BudgetS: budget, ChaosSeed: r.U64(),
			Sessions: []sessIn{{ID: "dkg-a", Excluded: []uint8{x, 0, x, 9}, Rogue: []uint8{x}, Chaos: heavy(r)}}})
		// B: two sessions sharing the channel: two exclusions (exactly the honest threshold operates)
		// with both excluded members running, next to a session without exclusions
		p := r.Perm(5)
		runs = append(runs, &runIn{Size: 5, Dishonest: 2, Seed: genSeed(r), SeatOp: seatOps(r), BudgetS: budget, ChaosSeed: r.U64(),
			Sessions: []sessIn{
				{ID: "dkg-b1", Excluded: []uint8{uint8(p[0] + 1), uint8(p[1] + 1)}, Rogue: []uint8{uint8(p[0] + 1), uint8(p[1] + 1)}, Chaos: heavy(r)},
				{ID: "dkg-b2", Excluded: nil, Chaos: heavy(r)}}})
		return runs
	}
	// thorough / search: every exclusion set leaving at least the honest threshold (3) operating,
	// paired two per channel, the excluded members running as rogues
	r := rng.Fork("thorough-runs")
	var sets [][]uint8
	for mask := 0; mask < 32; mask++ {
		var s []uint8
		for i := 0; i < 5; i++ {
			if mask>>i&1 == 1 {
				s = append(s, uint8(i+1))
			}
		}
		if len(s) <= 2 {
			sets = append(sets, s)
		}
	}
	p := r.Perm(len(sets))
	for i := 0; i+1 < len(p); i += 2 {
		a, b := sets[p[i]], sets[p[i+1]]
		runs = append(runs, &runIn{Size: 5, Dishonest: 2, Seed: genSeed(r), SeatOp: seatOps(r), BudgetS: 1800, ChaosSeed: r.U64(),
			Sessions: []sessIn{
				{ID: fmt.Sprintf("dkg-%d-x", i), Excluded: a, Rogue: a, Chaos: heavy(r)},
				{ID: fmt.Sprintf("dkg-%d-y", i), Excluded: b, Rogue: b, Chaos: heavy(r)}}})
	}
	return runs
}

// ---------------------------------------------------------------- main

func main() {
	o := lib.ParseOpts()
	em := lib.NewEmitter()
	mu := &emitMu{em: em}
	rule := "probe: one member with explicit marking calls and a stream of deliveries to its six states (distinct by all " +
		"inputs), non-trivial when at least one delivery was stored and at least one rejected; run: one session of real " +
		"dkg.Execute calls on the local network (distinct by scenario, exclusion set and rogue members), non-trivial when " +
		"at least two operating members finished and the session had exclusions or shared its channel with another session"
	if o.Replay != "" {
		var in input
		if err := lib.LoadReplay(o.Replay, &in); err != nil {
			fmt.Fprintln(os.Stderr, err)
			os.Exit(2)
		}
		if in.Probe != nil {
			runProbe(in.Probe, em, "replay")
		} else if in.Run != nil {
			runRun(in.Run, mu, "replay")
		}
		em.Close("replay", nil)
		return
	}
	rng := lib.NewRng(o.Seed)

	// the expensive runs go first, in the background
	runs := genRuns(o, rng)
	var wg sync.WaitGroup
	par := make(chan struct{}, 3)
	t0 := time.Now()
	for i, rn := range runs {
		wg.Add(1)
		go func(i int, rn *runIn) {
			defer wg.Done()
			par <- struct{}{}
			defer func() { <-par }()
			runRun(rn, mu, fmt.Sprintf("run-%d", i))
		}(i, rn)
	}

	emitProbe := func(in *probeIn, id string) {
		mu.Lock()
		defer mu.Unlock()
		runProbe(in, em, id)
	}
	// --- corpus
	{
		five := []int{0, 1, 2, 3, 4}
		all := func(state int, sess string, senders ...uint8) []msgIn {
			var l []msgIn
			for _, s := range senders {
				op := 5
				if s >= 1 && s <= 5 {
					op = int(s) - 1
				}
				l = append(l, msgIn{State: state, Kind: 0, Sender: s, Op: op, Session: sess})
			}
			return l
		}
		emitProbe(&probeIn{Size: 5, T: 2, Self: 1, Seed: "200", DQ: []uint8{3}, SeatOp: five, Session: "s1",
			Msgs: append(append(all(0, "s1", 1, 2, 3, 4, 5, 0, 6), all(3, "s2", 2, 4)...), all(5, "s1", 2, 2, 5)...),
			Conv: []string{"199", "200", "201", "205", "206", "456", "455"}}, "corpus-excluded-sender")
		emitProbe(&probeIn{Size: 5, T: 2, Self: 3, Seed: "0", DQ: []uint8{3, 3, 0, 9}, SeatOp: []int{0, 1, 0, 2, 3}, Session: "s1",
			Msgs: []msgIn{{0, 1, 1, 0, "s1"}, {0, 1, 3, 0, "s1"}, {2, 1, 1, 1, "s1"}, {2, 4, 2, 1, "s1"}, {1, 0, 4, 2, "s1"}, {4, 0, 5, 3, "s1"}, {4, 0, 2, 1, "s1"}},
			Conv: []string{"0", "3", "255", "256", "257"}}, "corpus-self-marked")
		emitProbe(&probeIn{Size: 3, T: 1, Self: 2, Seed: "7", DQ: []uint8{1}, IA: []uint8{3}, SeatOp: []int{0, 1, 2}, Session: "s1",
			Msgs: all(0, "s1", 1, 3)}, "corpus-alone")
	}
	for i, in := range smallProbes(rng.Fork("small")) {
		if o.Tier == "quick" && i%3 != int(o.Seed%3) {
			continue
		}
		emitProbe(in, fmt.Sprintf("small-%d", i))
	}
	n := o.Count(1500, 8000)
	for i := 0; i < n; i++ {
		emitProbe(genProbe(rng.Fork(fmt.Sprintf("probe%d", i))), fmt.Sprintf("probe-%d", i))
	}
	wg.Wait()
	em.Close(rule, map[string]interface{}{"runs_wall_s": time.Since(t0).Seconds(),
		"note": "members whose Execute did not return within the budget are reported Inconclusive and never judged a violation; " +
			strings.TrimSpace("see dist run-member-inconclusive")})
}
