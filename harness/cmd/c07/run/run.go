// Package run holds what the C07 and C08 drivers share: the fixture loader, operators and
// membership validators, the interception layer put between the local network and the protocol
// state machines, and runners of the real dkg.Executor.Execute / signing.Execute.
package run

import (
	"context"
	"crypto/ecdsa"
	"crypto/elliptic"
	"encoding/json"
	"fmt"
	"math/big"
	"os"
	"path/filepath"
	"sort"
	"sync"
	"sync/atomic"
	"time"

	"github.com/bnb-chain/tss-lib/ecdsa/keygen"
	logging "github.com/ipfs/go-log/v2"

	"github.com/keep-network/keep-common/pkg/persistence"
	"github.com/keep-network/keep-core/pkg/chain"
	"github.com/keep-network/keep-core/pkg/chain/local_v1"
	"github.com/keep-network/keep-core/pkg/generator"
	"github.com/keep-network/keep-core/pkg/net"
	"github.com/keep-network/keep-core/pkg/net/local"
	"github.com/keep-network/keep-core/pkg/operator"
	"github.com/keep-network/keep-core/pkg/protocol/group"
	"github.com/keep-network/keep-core/pkg/tecdsa"
	"github.com/keep-network/keep-core/pkg/tecdsa/dkg"
	"github.com/keep-network/keep-core/pkg/tecdsa/signing"

	"verifharness/lib"
)

var Logger = logging.Logger("verif-tecdsa")

func init() {
	logging.SetAllLoggers(logging.LevelFatal)
}

// ---------------------------------------------------------------- fixtures

// LoadFixtures reads the key shares (with their pre-parameters) of the 3-of-5 fixture group of
// pkg/internal/tecdsatest straight from /repo's testdata directory.
func LoadFixtures() ([]keygen.LocalPartySaveData, error) {
	repo := os.Getenv("VERIF_REPO")
	if repo == "" {
		repo = "/repo"
	}
	var shares []keygen.LocalPartySaveData
	for i := 0; i < 5; i++ {
		p := filepath.Join(repo, "pkg/internal/tecdsatest/testdata", fmt.Sprintf("private_key_share_data_%d.json", i))
		b, err := os.ReadFile(p)
		if err != nil {
			return nil, err
		}
		var s keygen.LocalPartySaveData
		if err := json.Unmarshal(b, &s); err != nil {
			return nil, err
		}
		shares = append(shares, s)
	}
	return shares, nil
}

// ---------------------------------------------------------------- operators and groups

type Operator struct {
	Priv    *operator.PrivateKey
	Pub     *operator.PublicKey
	PubRaw  []byte
	Address chain.Address
	Net     local.Provider
}

func NewOperator() *Operator {
	priv, pub, err := operator.GenerateKeyPair(local.DefaultCurve)
	if err != nil {
		panic(err)
	}
	s := local_v1.NewSigner(priv)
	addr, err := s.PublicKeyToAddress(pub)
	if err != nil {
		panic(err)
	}
	return &Operator{Priv: priv, Pub: pub, PubRaw: operator.MarshalUncompressed(pub), Address: addr,
		Net: local.ConnectWithKey(pub)}
}

// Group is a selected group: SeatOp[i] is the operator (index into Ops) holding member index i+1.
// Ops may contain operators that hold no seat (outsiders).
type Group struct {
	Ops       []*Operator
	SeatOp    []int
	Addresses []chain.Address
	Signing   chain.Signing
	Validator *group.MembershipValidator
}

func NewGroup(ops []*Operator, seatOp []int) *Group {
	g := &Group{Ops: ops, SeatOp: seatOp}
	for _, o := range seatOp {
		g.Addresses = append(g.Addresses, ops[o].Address)
	}
	g.Signing = local_v1.NewSigner(ops[0].Priv)
	g.Validator = group.NewMembershipValidator(Logger, g.Addresses, g.Signing)
	return g
}

// ---------------------------------------------------------------- fake network message (probes)

type FakeMessage struct {
	Pub []byte
	P   interface{ Type() string }
	Seq uint64
}

type fakeID string

func (f fakeID) String() string { return string(f) }

func (m *FakeMessage) TransportSenderID() net.TransportIdentifier { return fakeID("fake") }
func (m *FakeMessage) SenderPublicKey() []byte                    { return m.Pub }
func (m *FakeMessage) Payload() interface{}                       { return m.P }
func (m *FakeMessage) Type() string                               { return m.P.Type() }
func (m *FakeMessage) Seqno() uint64                              { return m.Seq }

// ---------------------------------------------------------------- interception layer

// Chaos describes what the interception layer does to the messages one member receives.
type Chaos struct {
	MaxDelayMs int // every delivery is delayed by a PRNG-chosen 0..MaxDelayMs (reorders, early delivery)
	DupPct     int // percentage of deliveries handed to the state machine twice
	SlowSeat   int // member index whose deliveries are additionally delayed by SlowMs (0 = none)
	SlowMs     int
}

// Traffic counts, per run, what reached the members' Receive functions.
type Traffic struct {
	Delivered     int64
	Duplicated    int64
	FromExcluded  int64 // deliveries whose claimed sender is an excluded member of the receiver's session
	OtherSession  int64 // deliveries carrying another session's id
	FromSelf      int64
	FromOperating int64
}

type protoMsg interface {
	SenderID() group.MemberIndex
	SessionID() string
}

type chaosChannel struct {
	inner    net.BroadcastChannel
	seat     int
	session  string
	excluded map[group.MemberIndex]bool
	chaos    Chaos
	rng      *lib.Rng
	mu       sync.Mutex
	traffic  *Traffic
}

func (c *chaosChannel) Name() string { return c.inner.Name() }
func (c *chaosChannel) Send(ctx context.Context, m net.TaggedMarshaler, s ...net.RetransmissionStrategy) error {
	return c.inner.Send(ctx, m, s...)
}
func (c *chaosChannel) SetUnmarshaler(u func() net.TaggedUnmarshaler) { c.inner.SetUnmarshaler(u) }
func (c *chaosChannel) SetFilter(f net.BroadcastChannelFilter) error  { return c.inner.SetFilter(f) }

func (c *chaosChannel) Recv(ctx context.Context, handler func(m net.Message)) {
	c.inner.Recv(ctx, func(m net.Message) {
		c.mu.Lock()
		delay := 0
		if c.chaos.MaxDelayMs > 0 {
			delay = c.rng.Intn(c.chaos.MaxDelayMs + 1)
		}
		if c.chaos.SlowSeat == c.seat {
			delay += c.chaos.SlowMs
		}
		dup := c.chaos.DupPct > 0 && c.rng.Intn(100) < c.chaos.DupPct
		c.mu.Unlock()
		atomic.AddInt64(&c.traffic.Delivered, 1)
		if pm, ok := m.Payload().(protoMsg); ok {
			switch {
			case pm.SessionID() != c.session:
				atomic.AddInt64(&c.traffic.OtherSession, 1)
			case int(pm.SenderID()) == c.seat:
				atomic.AddInt64(&c.traffic.FromSelf, 1)
			case c.excluded[pm.SenderID()]:
				atomic.AddInt64(&c.traffic.FromExcluded, 1)
			default:
				atomic.AddInt64(&c.traffic.FromOperating, 1)
			}
		}
		deliver := func() {
			if ctx.Err() != nil {
				return
			}
			handler(m)
			if dup {
				atomic.AddInt64(&c.traffic.Duplicated, 1)
				handler(m)
			}
		}
		if delay == 0 {
			deliver()
			return
		}
		go func() {
			t := time.NewTimer(time.Duration(delay) * time.Millisecond)
			defer t.Stop()
			select {
			case <-t.C:
				deliver()
			case <-ctx.Done():
			}
		}()
	})
}

// ---------------------------------------------------------------- pre-parameters

type memDescriptor struct {
	name, dir string
	content   []byte
}

func (d *memDescriptor) Name() string             { return d.name }
func (d *memDescriptor) Directory() string        { return d.dir }
func (d *memDescriptor) Content() ([]byte, error) { return d.content, nil }

// memPersistence is an in-memory persistence.BasicHandle pre-loaded with marshalled pre-parameters.
type memPersistence struct {
	mu    sync.Mutex
	items []*memDescriptor
}

func (p *memPersistence) Save(data []byte, directory string, name string) error {
	p.mu.Lock()
	defer p.mu.Unlock()
	p.items = append(p.items, &memDescriptor{name, directory, data})
	return nil
}
func (p *memPersistence) Delete(directory string, name string) error { return nil }
func (p *memPersistence) ReadAll() (<-chan persistence.DataDescriptor, <-chan error) {
	dc := make(chan persistence.DataDescriptor)
	ec := make(chan error)
	p.mu.Lock()
	items := append([]*memDescriptor{}, p.items...)
	p.mu.Unlock()
	go func() {
		for _, it := range items {
			dc <- it
		}
		close(dc)
		close(ec)
	}()
	return dc, ec
}

// NewExecutor builds a real dkg.Executor (dkg.NewExecutor) whose pool holds `copies` copies of the
// given pre-parameters, read through the executor's own persistence path, on a stopped scheduler
// (so that nothing is generated in the background).
func NewExecutor(pre *keygen.LocalPreParams, copies int) (*dkg.Executor, error) {
	pers := &memPersistence{}
	for i := 0; i < copies; i++ {
		b, err := dkg.VerifNewPreParams(pre).Marshal()
		if err != nil {
			return nil, err
		}
		pers.items = append(pers.items, &memDescriptor{fmt.Sprintf("pp_%d", i), "preparams", b})
	}
	e := dkg.NewExecutor(Logger, generator.VerifNewStoppedScheduler(), pers, copies,
		time.Minute, time.Second, 1, KeygenConcurrency)
	if e.PreParamsCount() != copies {
		return nil, fmt.Errorf("pre-params pool holds %d of %d entries", e.PreParamsCount(), copies)
	}
	return e, nil
}

// ---------------------------------------------------------------- runs

// Session is one protocol session on a channel: who is excluded and which members actually run
// Execute (the operating ones, and possibly excluded "rogue" members that run it regardless).
type Session struct {
	ID       string
	Seed     *big.Int // dkg only
	Message  *big.Int // signing only
	Excluded []group.MemberIndex
	Runners  []group.MemberIndex
	Chaos    Chaos
}

type MemberOut struct {
	Session    int
	Member     group.MemberIndex
	Status     string // done | error | inconclusive | panic
	Err        string
	PubKey     []byte
	Misbehaved []group.MemberIndex
	Operating  []group.MemberIndex // result.Group.OperatingMemberIndexes()
	Ks         []*big.Int
	ShareID    *big.Int
	Share      *tecdsa.PrivateKeyShare
	Signature  *tecdsa.Signature
	Seconds    float64
}

var channelCounter uint64

// KeygenConcurrency is the tss-lib key generation concurrency every executor is built with.
var KeygenConcurrency = 4

func isExcluded(s *Session, m group.MemberIndex) bool {
	for _, e := range s.Excluded {
		if e == m {
			return true
		}
	}
	return false
}

type execFn func(ctx context.Context, s *Session, m group.MemberIndex, ch net.BroadcastChannel) (*MemberOut, error)

func runSessions(g *Group, sessions []*Session, rng *lib.Rng, budget time.Duration,
	register func(net.BroadcastChannel), exec execFn) ([][]*MemberOut, []*Traffic, error) {
	name := fmt.Sprintf("verif-%d-%d", os.Getpid(), atomic.AddUint64(&channelCounter, 1))
	ctx, cancel := context.WithTimeout(context.Background(), budget)
	defer cancel()
	outs := make([][]*MemberOut, len(sessions))
	traffic := make([]*Traffic, len(sessions))
	var wg sync.WaitGroup
	var waitFor sync.WaitGroup // the operating members: the run ends when they all returned
	type job struct {
		si  int
		m   group.MemberIndex
		ch  net.BroadcastChannel
		out **MemberOut
	}
	var jobs []job
	for si, s := range sessions {
		traffic[si] = &Traffic{}
		outs[si] = make([]*MemberOut, len(s.Runners))
		ex := map[group.MemberIndex]bool{}
		for _, e := range s.Excluded {
			ex[e] = true
		}
		for ri, m := range s.Runners {
			inner, err := g.Ops[g.SeatOp[int(m)-1]].Net.BroadcastChannelFor(name)
			if err != nil {
				return nil, nil, err
			}
			register(inner)
			ch := &chaosChannel{inner: inner, seat: int(m), session: s.ID, excluded: ex, chaos: s.Chaos,
				rng: rng.Fork(fmt.Sprintf("chaos-%d-%d", si, m)), traffic: traffic[si]}
			jobs = append(jobs, job{si, m, ch, &outs[si][ri]})
		}
	}
	done := make(chan struct{})
	for _, j := range jobs {
		j := j
		s := sessions[j.si]
		wg.Add(1)
		operating := !isExcluded(s, j.m)
		if operating {
			waitFor.Add(1)
		}
		go func() {
			defer wg.Done()
			if operating {
				defer waitFor.Done()
			}
			t0 := time.Now()
			var out *MemberOut
			func() {
				defer func() {
					if r := recover(); r != nil {
						out = &MemberOut{Status: "panic", Err: fmt.Sprint(r)}
					}
				}()
				o, err := exec(ctx, s, j.m, j.ch)
				if err != nil {
					if ctx.Err() != nil {
						out = &MemberOut{Status: "inconclusive", Err: err.Error()}
					} else {
						out = &MemberOut{Status: "error", Err: err.Error()}
					}
					return
				}
				out = o
				out.Status = "done"
			}()
			out.Session, out.Member, out.Seconds = j.si, j.m, time.Since(t0).Seconds()
			*j.out = out
		}()
	}
	go func() { waitFor.Wait(); close(done) }()
	select {
	case <-done:
	case <-ctx.Done():
	}
	// the protocol requires the context to stay alive until everybody finished; now stop the
	// retransmissions and the rogue members
	cancel()
	wg.Wait()
	return outs, traffic, nil
}

// RunDKG runs the real dkg.Executor.Execute for every runner of every session, all on ONE
// broadcast channel of the local network.  executors[m-1] serves member index m.
func RunDKG(g *Group, dishonest int, sessions []*Session, executors []*dkg.Executor, rng *lib.Rng,
	budget time.Duration) ([][]*MemberOut, []*Traffic, error) {
	return runSessions(g, sessions, rng, budget, dkg.RegisterUnmarshallers,
		func(ctx context.Context, s *Session, m group.MemberIndex, ch net.BroadcastChannel) (*MemberOut, error) {
			res, err := executors[int(m)-1].Execute(ctx, Logger, s.Seed, s.ID, m, len(g.SeatOp), dishonest,
				append([]group.MemberIndex{}, s.Excluded...), ch, g.Validator)
			if err != nil {
				return nil, err
			}
			pk, err := res.GroupPublicKeyBytes()
			if err != nil {
				return nil, err
			}
			d := res.PrivateKeyShare.Data()
			return &MemberOut{PubKey: pk, Misbehaved: res.MisbehavedMembersIndexes(), Ks: d.Ks, ShareID: d.ShareID,
				Share: res.PrivateKeyShare, Operating: res.Group.OperatingMemberIndexes()}, nil
		})
}

// RunSigning runs the real signing.Execute for every runner of every session on one channel.
// shares[m-1] is the key share of member index m of the (final) signing group g.
func RunSigning(g *Group, dishonest int, sessions []*Session, shares []*tecdsa.PrivateKeyShare, rng *lib.Rng,
	budget time.Duration) ([][]*MemberOut, []*Traffic, error) {
	return runSessions(g, sessions, rng, budget, signing.RegisterUnmarshallers,
		func(ctx context.Context, s *Session, m group.MemberIndex, ch net.BroadcastChannel) (*MemberOut, error) {
			res, err := signing.Execute(ctx, Logger, s.Message, s.ID, m, shares[int(m)-1], len(g.SeatOp), dishonest,
				append([]group.MemberIndex{}, s.Excluded...), ch, g.Validator)
			if err != nil {
				return nil, err
			}
			return &MemberOut{Signature: res.Signature}, nil
		})
}

// ---------------------------------------------------------------- checks done in Go (crypto oracles)

// VerifySignature reports ecdsa.Verify of (r,s) over the 32-byte big-endian message under the
// uncompressed public key, and whether s is in the lower half of the curve order.
func VerifySignature(pub []byte, message *big.Int, sig *tecdsa.Signature) (valid bool, lowS bool) {
	if sig == nil || sig.R == nil || sig.S == nil {
		return false, false
	}
	x, y := elliptic.Unmarshal(tecdsa.Curve, pub)
	if x == nil {
		return false, false
	}
	pk := &ecdsa.PublicKey{Curve: tecdsa.Curve, X: x, Y: y}
	hash := make([]byte, 32)
	message.FillBytes(hash)
	valid = ecdsa.Verify(pk, hash, sig.R, sig.S)
	half := new(big.Int).Rsh(tecdsa.Curve.Params().N, 1)
	lowS = sig.S.Sign() > 0 && sig.S.Cmp(half) <= 0
	return
}

// Idx is a list of member indexes that prints as a JSON array of numbers (not base64).
type Idx []group.MemberIndex

func (l Idx) MarshalJSON() ([]byte, error) {
	v := make([]int, len(l))
	for i, x := range l {
		v[i] = int(x)
	}
	return json.Marshal(v)
}

func SortedIdx(l []group.MemberIndex) []group.MemberIndex {
	o := append([]group.MemberIndex{}, l...)
	sort.Slice(o, func(i, j int) bool { return o[i] < o[j] })
	return o
}
