// Driver for C04: runs altbn128 Compress / DecompressToG1 / DecompressToG2 / G1HashToPoint on
// group elements k*G and on arbitrary well-sized byte strings and prints the cases for the Coq
// model (Model/C04.v).  Points cross the boundary as their marshalled affine coordinates.
//
// Decoding is a function of the bytes: every case keeps its buffers and uses them AGAIN (the same
// slice is decoded three times and compared with a copy taken before the first call; the decoded
// point is compressed again; the point given to Compress and the message given to G1HashToPoint
// are compared with their copies), see Model/C04.v ucase / reuse_ok.
//
// Decompression of arbitrary bytes runs in a goroutine under a watchdog only so that the driver
// itself cannot hang: a call that takes microseconds of CPU is reported as Hang only after it
// failed to return within 20 s and again within 60 s.
package main

import (
	"bytes"
	"crypto/sha256"
	"encoding/hex"
	"errors"
	"flag"
	"fmt"
	"math/big"
	"os"
	"time"

	bn256 "github.com/ethereum/go-ethereum/crypto/bn256/cloudflare"
	"github.com/keep-network/keep-core/pkg/altbn128"

	"verifharness/lib"
)

type input struct {
	Kind   string `json:"kind"`             // round1 | round2 | dec1 | dec2 | hash | hashrun
	Scalar string `json:"scalar,omitempty"` // decimal k for k*G
	Bytes  string `json:"bytes,omitempty"`  // hex input for dec1 / dec2 / hash
}

func zOf(b []byte) string { return lib.ZBig(new(big.Int).SetBytes(b)) }

func allZero(b []byte) bool {
	for _, v := range b {
		if v != 0 {
			return false
		}
	}
	return true
}

func point1Term(m []byte) string {
	if allZero(m) {
		return "Inf1"
	}
	return fmt.Sprintf("(Aff1 %s %s)", zOf(m[:32]), zOf(m[32:64]))
}

// bn256 marshals a G2 point as x.imag, x.real, y.imag, y.real; the model's gfp2 is (real, imag)
func point2Term(m []byte) string {
	if allZero(m) {
		return "Inf2"
	}
	return fmt.Sprintf("(Aff2 (%s, %s) (%s, %s))", zOf(m[32:64]), zOf(m[:32]), zOf(m[96:128]), zOf(m[64:96]))
}

type result struct {
	kind  string // ok | err | panic | hang | nil (hash only: a nil *bn256.G1 was returned)
	bytes []byte
}

func guarded(f func() ([]byte, error)) (res result) {
	run := func(limit time.Duration) (result, bool) {
		ch := make(chan result, 1)
		go func() {
			defer func() {
				if r := recover(); r != nil {
					ch <- result{kind: "panic"}
				}
			}()
			b, err := f()
			if err != nil {
				ch <- result{kind: "err"}
				return
			}
			ch <- result{kind: "ok", bytes: b}
		}()
		select {
		case r := <-ch:
			return r, true
		case <-time.After(limit):
			return result{}, false
		}
	}
	if r, ok := run(20 * time.Second); ok {
		return r
	}
	if r, ok := run(60 * time.Second); ok {
		return r
	}
	return result{kind: "hang"}
}

func res1Term(r result) string {
	switch r.kind {
	case "ok":
		return "(R1 " + point1Term(r.bytes) + ")"
	case "err":
		return "Err1"
	case "hang":
		return "Hang1"
	case "nil":
		return "Nil1"
	}
	return "Panic1"
}

func res2Term(r result) string {
	switch r.kind {
	case "ok":
		return "(R2 " + point2Term(r.bytes) + ")"
	case "err":
		return "Err2"
	case "hang":
		return "Hang2"
	}
	return "Panic2"
}

func cresTerm(r result) string {
	if r.kind == "ok" {
		return "(CBytes " + lib.Bytes(r.bytes) + ")"
	}
	return "CPanic"
}

var hung = false

var errNilPoint = errors.New("nil point")

// hashCall runs the real G1HashToPoint; a nil result is the observable "nil", a panic "panic".
func hashCall(b []byte) result {
	r := guarded(func() ([]byte, error) {
		p := altbn128.G1HashToPoint(b)
		if p == nil {
			return nil, errNilPoint
		}
		return p.Marshal(), nil
	})
	if r.kind == "err" {
		r.kind = "nil"
	}
	return r
}

func run(in input, em *lib.Emitter, id string) {
	var coq string
	sig := map[string]interface{}{"kind": in.Kind, "identity": false}
	out := map[string]interface{}{}
	nontrivial := true
	switch in.Kind {
	case "round1":
		k, _ := new(big.Int).SetString(in.Scalar, 10)
		g := new(bn256.G1).ScalarBaseMult(k)
		m := g.Marshal()
		// buf is THE buffer: it holds what Compress returned and is decoded three times; snap is
		// the copy taken right after Compress, before any decode
		var buf, snap []byte
		c := guarded(func() ([]byte, error) {
			buf = altbn128.G1Point{G1: g}.Compress()
			snap = append([]byte{}, buf...)
			return snap, nil
		})
		dec := func(b []byte) result {
			return guarded(func() ([]byte, error) {
				p, err := altbn128.DecompressToG1(b)
				if err != nil {
					return nil, err
				}
				return p.Marshal(), nil
			})
		}
		d, d2, d3 := result{kind: "panic"}, result{kind: "panic"}, result{kind: "panic"}
		recomp := "None"
		if c.kind == "ok" {
			d, d2, d3 = dec(buf), dec(buf), dec(buf)
			if d.kind == "ok" {
				recomp = "(Some " + cresTerm(guarded(func() ([]byte, error) {
					p, err := altbn128.DecompressToG1(append([]byte{}, snap...))
					if err != nil {
						return nil, err
					}
					return altbn128.G1Point{G1: p}.Compress(), nil
				})) + ")"
			}
		}
		after := result{kind: c.kind, bytes: buf}
		coq = fmt.Sprintf("(URound1 %s %s %s %s %s %s %s %s)", point1Term(m), cresTerm(c), res1Term(d), res1Term(d2),
			res1Term(d3), cresTerm(after), point1Term(g.Marshal()), recomp)
		sig["identity"] = allZero(m)
		nontrivial = !allZero(m)
		out["compress"], out["decompress"], out["second"], out["third"] = c.kind, d.kind, d2.kind, d3.kind
		out["sameResultAgain"] = bytes.Equal(d.bytes, d2.bytes) && bytes.Equal(d.bytes, d3.bytes) && d.kind == d2.kind && d.kind == d3.kind
		out["bufferUnchanged"] = bytes.Equal(buf, snap)
		if len(snap) > 0 {
			em.Tally(fmt.Sprintf("round1-flag-%d", snap[0]>>7))
		}
		em.Tally("round1-" + d.kind)
	case "round2":
		k, _ := new(big.Int).SetString(in.Scalar, 10)
		g := new(bn256.G2).ScalarBaseMult(k)
		m := g.Marshal()
		var buf, snap []byte
		c := guarded(func() ([]byte, error) {
			buf = altbn128.G2Point{G2: g}.Compress()
			snap = append([]byte{}, buf...)
			return snap, nil
		})
		dec := func(b []byte) result {
			return guarded(func() ([]byte, error) {
				p, err := altbn128.DecompressToG2(b)
				if err != nil {
					return nil, err
				}
				return p.Marshal(), nil
			})
		}
		d, d2, d3 := result{kind: "panic"}, result{kind: "panic"}, result{kind: "panic"}
		recomp := "None"
		if c.kind == "ok" {
			d, d2, d3 = dec(buf), dec(buf), dec(buf)
			if d.kind == "ok" {
				recomp = "(Some " + cresTerm(guarded(func() ([]byte, error) {
					p, err := altbn128.DecompressToG2(append([]byte{}, snap...))
					if err != nil {
						return nil, err
					}
					return altbn128.G2Point{G2: p}.Compress(), nil
				})) + ")"
			}
		}
		after := result{kind: c.kind, bytes: buf}
		coq = fmt.Sprintf("(URound2 %s %s %s %s %s %s %s %s)", point2Term(m), cresTerm(c), res2Term(d), res2Term(d2),
			res2Term(d3), cresTerm(after), point2Term(g.Marshal()), recomp)
		sig["identity"] = allZero(m)
		nontrivial = !allZero(m)
		out["compress"], out["decompress"], out["second"], out["third"] = c.kind, d.kind, d2.kind, d3.kind
		out["sameResultAgain"] = bytes.Equal(d.bytes, d2.bytes) && bytes.Equal(d.bytes, d3.bytes) && d.kind == d2.kind && d.kind == d3.kind
		out["bufferUnchanged"] = bytes.Equal(buf, snap)
		if len(snap) > 0 {
			em.Tally(fmt.Sprintf("round2-flag-%d", snap[0]>>7))
		}
		em.Tally("round2-" + d.kind)
	case "dec1":
		b, _ := hex.DecodeString(in.Bytes)
		// buf is THE input buffer, decoded three times; b stays the copy taken before
		buf := append([]byte{}, b...)
		dec := func() result {
			return guarded(func() ([]byte, error) {
				p, err := altbn128.DecompressToG1(buf)
				if err != nil {
					return nil, err
				}
				return p.Marshal(), nil
			})
		}
		d, d2, d3 := dec(), dec(), dec()
		recomp := "None"
		if d.kind == "ok" {
			recomp = "(Some " + cresTerm(guarded(func() ([]byte, error) {
				p, err := altbn128.DecompressToG1(append([]byte{}, b...))
				if err != nil {
					return nil, err
				}
				return altbn128.G1Point{G1: p}.Compress(), nil
			})) + ")"
		}
		coq = fmt.Sprintf("(UDec1 %s %s %s %s %s %s)", lib.Bytes(b), res1Term(d), res1Term(d2), res1Term(d3), lib.Bytes(buf), recomp)
		out["decompress"], out["second"], out["third"] = d.kind, d2.kind, d3.kind
		out["sameResultAgain"] = bytes.Equal(d.bytes, d2.bytes) && bytes.Equal(d.bytes, d3.bytes) && d.kind == d2.kind && d.kind == d3.kind
		out["bufferUnchanged"] = bytes.Equal(buf, b)
		nontrivial = !allZero(b)
		em.Tally("dec1-" + d.kind)
		if len(b) > 0 && d.kind == "ok" {
			em.Tally(fmt.Sprintf("dec1-ok-flag-%d", b[0]>>7))
		}
	case "dec2":
		b, _ := hex.DecodeString(in.Bytes)
		buf := append([]byte{}, b...)
		d := result{kind: "hang"}
		d2, d3 := d, d
		recomp := "None"
		if !hung { // after one confirmed hang do not start more spinning goroutines
			dec := func() result {
				return guarded(func() ([]byte, error) {
					p, err := altbn128.DecompressToG2(buf)
					if err != nil {
						return nil, err
					}
					return p.Marshal(), nil
				})
			}
			d = dec()
			if d.kind == "hang" {
				hung = true
			} else {
				d2, d3 = dec(), dec()
			}
			if d.kind == "ok" {
				recomp = "(Some " + cresTerm(guarded(func() ([]byte, error) {
					p, err := altbn128.DecompressToG2(append([]byte{}, b...))
					if err != nil {
						return nil, err
					}
					return altbn128.G2Point{G2: p}.Compress(), nil
				})) + ")"
			}
		} else {
			return
		}
		coq = fmt.Sprintf("(UDec2 %s %s %s %s %s %s)", lib.Bytes(b), res2Term(d), res2Term(d2), res2Term(d3), lib.Bytes(buf), recomp)
		out["decompress"], out["second"], out["third"] = d.kind, d2.kind, d3.kind
		out["sameResultAgain"] = bytes.Equal(d.bytes, d2.bytes) && bytes.Equal(d.bytes, d3.bytes) && d.kind == d2.kind && d.kind == d3.kind
		out["bufferUnchanged"] = bytes.Equal(buf, b)
		nontrivial = !allZero(b)
		em.Tally("dec2-" + d.kind)
		if len(b) > 0 && d.kind == "ok" {
			em.Tally(fmt.Sprintf("dec2-ok-flag-%d", b[0]>>7))
		}
	case "hash", "hashrun":
		// hashrun: a message ground for a long try-and-increment run (search.go); the number of
		// increments is computed here with Jacobi symbols, independently of the implementation,
		// and the model must reproduce both the point and that count
		b, _ := hex.DecodeString(in.Bytes)
		h := sha256.Sum256(b)
		incs := runLengthOf(b)
		// msg is THE message slice, handed to both calls (with spare capacity, so that an append
		// inside the callee would write into it)
		msg := append(make([]byte, 0, len(b)+40), b...)
		p1, p2 := hashCall(msg), hashCall(msg)
		kept := bytes.Equal(msg, b) && bytes.Equal(msg[:cap(msg)][len(b):], make([]byte, cap(msg)-len(b)))
		out["messageUnchanged"] = kept
		if in.Kind == "hash" {
			coq = fmt.Sprintf("(UHash %s %s %s %s)", zOf(h[:]), res1Term(p1), res1Term(p2), lib.Bool(kept))
			nontrivial = len(b) > 0
		} else {
			coq = fmt.Sprintf("(UHashRun %s %s %s %s %s)", zOf(h[:]), lib.Z(int64(incs)), res1Term(p1), res1Term(p2), lib.Bool(kept))
			out["message"] = string(b)
		}
		out["point"], out["repeat"], out["increments"] = p1.kind, p2.kind, incs
		if p1.kind == "ok" && !allZero(p1.bytes) {
			x0 := new(big.Int).Mod(new(big.Int).SetBytes(h[:]), fieldP)
			out["x_offset"] = new(big.Int).Sub(new(big.Int).SetBytes(p1.bytes[:32]), x0).String()
		}
		em.Tally(in.Kind + "-" + p1.kind)
		em.Tally(fmt.Sprintf("hash-increments-%02d", incs))
	default:
		fmt.Fprintln(os.Stderr, "unknown kind", in.Kind)
		os.Exit(2)
	}
	em.Case(lib.Case{
		ID:         id,
		Coq:        coq,
		Key:        in.Kind + "|" + in.Scalar + "|" + in.Bytes,
		Nontrivial: nontrivial,
		Sig:        sig,
		In:         in,
		Out:        out,
	})
}

func randScalar(r *lib.Rng) *big.Int {
	switch r.Intn(10) {
	case 0:
		return big.NewInt(int64(1 + r.Intn(20)))
	case 1:
		return new(big.Int).Sub(bn256.Order, big.NewInt(int64(1+r.Intn(20))))
	}
	b := new(big.Int).SetBytes(r.Bytes(40))
	b.Mod(b, bn256.Order)
	if b.Sign() == 0 {
		b.SetInt64(1)
	}
	return b
}

func main() {
	grindN := flag.Uint64("grind", 0, "search mode: grind this many messages <prefix><counter> for long try-and-increment runs and print them")
	grindFrom := flag.Uint64("grind-from", 0, "search mode: first counter")
	grindMin := flag.Int("grind-min", 16, "search mode: smallest run length reported")
	grindPrefix := flag.String("grind-prefix", "verif-c04-", "search mode: message prefix")
	o := lib.ParseOpts()
	if *grindN > 0 {
		grindMain(*grindPrefix, *grindFrom, *grindN, *grindMin)
		return
	}
	em := lib.NewEmitter()
	if o.Replay != "" {
		var in input
		if err := lib.LoadReplay(o.Replay, &in); err != nil {
			fmt.Fprintln(os.Stderr, err)
			os.Exit(2)
		}
		run(in, em, "replay")
		em.Close("replay", nil)
		return
	}
	rng := lib.NewRng(o.Seed)
	hexOf := func(b []byte) string { return hex.EncodeToString(b) }
	last := func(n int, v byte) []byte {
		b := make([]byte, n)
		b[n-1] = v
		return b
	}

	// --- corpus: minimised regression cases (run first)
	// witnesses of the repaired defect: 64-byte inputs 00..00, 00..03, 00..04, 00..05 made
	// DecompressToG2 spin forever (x^3 + twistB is not a square)
	for _, v := range []byte{0, 3, 4, 5, 1, 2, 6, 7} {
		run(input{Kind: "dec2", Bytes: hexOf(last(64, v))}, em, fmt.Sprintf("corpus-dec2-00..%02x", v))
	}
	{
		ff := make([]byte, 64)
		for i := range ff {
			ff[i] = 0xff
		}
		run(input{Kind: "dec2", Bytes: hexOf(ff)}, em, "corpus-dec2-ff")
		run(input{Kind: "dec1", Bytes: hexOf(ff[:32])}, em, "corpus-dec1-ff")
		run(input{Kind: "dec1", Bytes: hexOf(last(32, 0))}, em, "corpus-dec1-zero")
		run(input{Kind: "dec1", Bytes: hexOf(last(32, 1))}, em, "corpus-dec1-x1")
		top := last(32, 1)
		top[0] = 0x80
		run(input{Kind: "dec1", Bytes: hexOf(top)}, em, "corpus-dec1-x1-flag")
		// x = p and x = p + 1 (not canonical)
		p := new(big.Int).Set(bn256.P)
		run(input{Kind: "dec1", Bytes: hexOf(p.Bytes())}, em, "corpus-dec1-x-eq-p")
		run(input{Kind: "dec1", Bytes: hexOf(new(big.Int).Add(p, big.NewInt(1)).Bytes())}, em, "corpus-dec1-x-p-plus-1")
	}
	for _, k := range []string{"1", "2", "3", "21888242871839275222246405745257275088548364400416034343698204186575808495616"} {
		run(input{Kind: "round1", Scalar: k}, em, "corpus-round1-"+k[:1]+fmt.Sprint(len(k)))
		run(input{Kind: "round2", Scalar: k}, em, "corpus-round2-"+k[:1]+fmt.Sprint(len(k)))
	}
	// the identity: Compress used to panic (yParity of 0); it still does not round-trip
	run(input{Kind: "round1", Scalar: "0"}, em, "corpus-round1-identity")
	run(input{Kind: "round2", Scalar: "0"}, em, "corpus-round2-identity")
	run(input{Kind: "hash", Bytes: ""}, em, "corpus-hash-empty")
	run(input{Kind: "hash", Bytes: hexOf([]byte("hello"))}, em, "corpus-hash-hello")
	// messages ground for long try-and-increment runs (longruns.json, produced once by
	// `c04 -grind`): a random message needs k or more increments with probability 2^-k, so
	// without these the loop is never exercised beyond a dozen iterations
	for _, lr := range loadLongRuns() {
		if got := runLengthOf([]byte(lr.Msg)); got != lr.Run {
			fmt.Fprintf(os.Stderr, "longruns.json: %q has run length %d, file says %d\n", lr.Msg, got, lr.Run)
			os.Exit(2)
		}
		run(input{Kind: "hashrun", Bytes: hexOf([]byte(lr.Msg))}, em, fmt.Sprintf("corpus-hashrun-%02d-%s", lr.Run, lr.Msg))
	}
	// thorough / search tier: a fresh seeded search on every run
	if o.Tier != "quick" {
		prefix := fmt.Sprintf("verif-c04-s%d-", o.Seed)
		hits, _ := grind(prefix, 0, 1<<23, 15)
		for _, lr := range hits {
			run(input{Kind: "hashrun", Bytes: hexOf([]byte(lr.Msg))}, em, fmt.Sprintf("ground-hashrun-%02d-%s", lr.Run, lr.Msg))
		}
	}

	// --- small scope: k*G for k = 4..N, both groups
	nSmall := o.Count(12, 120)
	for k := 4; k < 4+nSmall; k++ {
		run(input{Kind: "round1", Scalar: fmt.Sprint(k)}, em, fmt.Sprintf("small-round1-%d", k))
		if k%3 == 0 || o.Tier != "quick" {
			run(input{Kind: "round2", Scalar: fmt.Sprint(k)}, em, fmt.Sprintf("small-round2-%d", k))
		}
	}

	// --- random group elements
	n1 := o.Count(80, 1500)
	for i := 0; i < n1; i++ {
		r := rng.Fork(fmt.Sprintf("r1-%d", i))
		run(input{Kind: "round1", Scalar: randScalar(r).String()}, em, fmt.Sprintf("round1-%d", i))
	}
	n2 := o.Count(30, 600)
	for i := 0; i < n2; i++ {
		r := rng.Fork(fmt.Sprintf("r2-%d", i))
		run(input{Kind: "round2", Scalar: randScalar(r).String()}, em, fmt.Sprintf("round2-%d", i))
	}

	// --- arbitrary well-sized inputs to decompression (the malformed stream)
	nd1 := o.Count(60, 1000)
	for i := 0; i < nd1; i++ {
		r := rng.Fork(fmt.Sprintf("d1-%d", i))
		var b []byte
		switch r.Intn(4) {
		case 0: // a valid encoding with the flag flipped or one bit of x changed
			g := new(bn256.G1).ScalarBaseMult(randScalar(r))
			b = altbn128.G1Point{G1: g}.Compress()
			if r.Bool() {
				b[0] ^= 0x80
			} else {
				b[r.Intn(32)] ^= 1 << uint(r.Intn(7))
			}
		case 1: // small x
			b = last(32, byte(r.Intn(256)))
			if r.Bool() {
				b[0] |= 0x80
			}
		default:
			b = r.Bytes(32)
			if r.Chance(2, 3) {
				b[0] &= 0xbf // mostly x < 2^254 so that many inputs pass the range check
				b[0] &= 0xb0 | byte(r.Intn(16))
			}
		}
		run(input{Kind: "dec1", Bytes: hexOf(b)}, em, fmt.Sprintf("dec1-%d", i))
	}
	nd2 := o.Count(40, 600)
	for i := 0; i < nd2; i++ {
		r := rng.Fork(fmt.Sprintf("d2-%d", i))
		var b []byte
		switch r.Intn(4) {
		case 0:
			g := new(bn256.G2).ScalarBaseMult(randScalar(r))
			b = altbn128.G2Point{G2: g}.Compress()
			if r.Bool() {
				b[0] ^= 0x80
			} else {
				b[r.Intn(64)] ^= 1 << uint(r.Intn(7))
			}
		case 1:
			b = last(64, byte(r.Intn(256)))
			b[31] = byte(r.Intn(4))
			if r.Bool() {
				b[0] |= 0x80
			}
		default:
			b = r.Bytes(64)
			if r.Chance(2, 3) {
				b[0] &= 0x9f
				b[32] &= 0x1f
			}
		}
		run(input{Kind: "dec2", Bytes: hexOf(b)}, em, fmt.Sprintf("dec2-%d", i))
	}

	// --- hash to point
	nh := o.Count(40, 800)
	for i := 0; i < nh; i++ {
		r := rng.Fork(fmt.Sprintf("h-%d", i))
		run(input{Kind: "hash", Bytes: hexOf(r.Bytes(r.Intn(80)))}, em, fmt.Sprintf("hash-%d", i))
	}
	em.Close("every case uses its buffers again: the compressed / input buffer is decoded three times and compared with a copy "+
		"taken before, the decoded point is compressed again, the point given to Compress and the message given to "+
		"G1HashToPoint are compared with their copies; "+
		"a case is one Compress+Decompress round trip of a group element k*G (G1 or G2), one "+
		"decompression of an arbitrary 32- / 64-byte string, or one G1HashToPoint call (run twice; kind hashrun: on a "+
		"message ground for a long try-and-increment run, with the independently computed number of increments); "+
		"distinct by (kind, scalar or bytes); non-trivial: round trips of non-identity elements, decompression inputs "+
		"other than the all-zero string, hashes of non-empty messages; dist hash-increments-NN = number of hash cases "+
		"whose try-and-increment loop executed NN increments", nil)
}
