// Long try-and-increment runs for G1HashToPoint.
//
// G1HashToPoint(m) starts at x0 = sha256(m) mod P and increments x until x^3 + 3 is a square
// modulo P.  Half of all x qualify, so a random message needs about two attempts and a message
// that needs k or more increments turns up once in 2^k messages: random generation never
// exercises the loop beyond a dozen iterations.  This file computes the number of increments
// INDEPENDENTLY of pkg/altbn128 (math/big Jacobi symbol instead of ModSqrt) and grinds the
// messages "<prefix><counter>" over all cores, keeping the ones with a long run.
//
//   - `c04 -grind N [-grind-from A] [-grind-min K] [-grind-prefix S]` prints the messages among
//     counters A .. A+N-1 whose run length is at least K as a JSON array (how longruns.json,
//     the committed regression corpus, was produced: counters 0 .. 2^30-1 of the prefix
//     "verif-c04-" in 64 blocks of 2^24, -grind-min 16; of the 16 527 hits the file keeps the
//     first three (by counter) of every run length 16..23, the first six of 24..27 and all of
//     28 and more: 28 x5, 29 x2, 35 x1 — so the longest run exercised is 35 increments);
//   - the thorough tier runs a fresh seeded search of 2^23 candidates on every run and adds
//     what it finds to the cases.
//
// The run length of a message is the number of x values rejected before the first accepted one
// (= the number of `x.Add(x, one)` executed by the loop); the accepted x is x0 + run.
package main

import (
	"crypto/sha256"
	_ "embed"
	"encoding/binary"
	"encoding/json"
	"fmt"
	"math/big"
	"math/bits"
	"os"
	"runtime"
	"sort"
	"strconv"
	"sync"
)

// the BN254 base-field modulus, written out here (not taken from bn256) so that the run-length
// computation shares nothing with the code under test
var fieldP, _ = new(big.Int).SetString("21888242871839275222246405745257275088696311157297823662689037894645226208583", 10)

var big1, big3 = big.NewInt(1), big.NewInt(3)

type longRun struct {
	Msg string `json:"message"`
	Run int    `json:"run"`
}

//go:embed longruns.json
var longRunsJSON []byte

func loadLongRuns() []longRun {
	var l []longRun
	if err := json.Unmarshal(longRunsJSON, &l); err != nil {
		fmt.Fprintln(os.Stderr, "longruns.json:", err)
		os.Exit(2)
	}
	return l
}

// runScratch holds the big.Int temporaries of one worker.
type runScratch struct{ x, c, t *big.Int }

func newScratch() *runScratch {
	return &runScratch{new(big.Int), new(big.Int), new(big.Int)}
}

// hasY reports whether x^3 + 3 is a square modulo P (zero included), by the Jacobi symbol.
func (s *runScratch) hasY() bool {
	s.cube()
	return jacobi256(s.c) >= 0
}

// hasYBig is the same through math/big's Jacobi (slower; cross-checks jacobi256).
func (s *runScratch) hasYBig() bool {
	s.cube()
	return big.Jacobi(s.c, fieldP) >= 0
}

func (s *runScratch) cube() {
	s.t.Mul(s.x, s.x)
	s.t.Mod(s.t, fieldP)
	s.c.Mul(s.t, s.x)
	s.c.Add(s.c, big3)
	s.c.Mod(s.c, fieldP)
}

type u256 [4]uint64 // little-endian limbs

func toU256(v *big.Int) (r u256) {
	var buf [32]byte
	v.FillBytes(buf[:])
	for i := 0; i < 4; i++ {
		r[i] = binary.BigEndian.Uint64(buf[24-8*i : 32-8*i])
	}
	return
}

var fieldPLimbs = toU256(fieldP)

func (a *u256) isZero() bool { return a[0]|a[1]|a[2]|a[3] == 0 }
func (a *u256) less(b *u256) bool {
	for i := 3; i >= 0; i-- {
		if a[i] != b[i] {
			return a[i] < b[i]
		}
	}
	return false
}
func (a *u256) sub(b *u256) {
	var br uint64
	a[0], br = bits.Sub64(a[0], b[0], 0)
	a[1], br = bits.Sub64(a[1], b[1], br)
	a[2], br = bits.Sub64(a[2], b[2], br)
	a[3], _ = bits.Sub64(a[3], b[3], br)
}
func (a *u256) shr(k uint) { // 0 < k < 64
	a[0] = a[0]>>k | a[1]<<(64-k)
	a[1] = a[1]>>k | a[2]<<(64-k)
	a[2] = a[2]>>k | a[3]<<(64-k)
	a[3] >>= k
}

// jacobi256 is the Jacobi symbol (c / P) for 0 <= c < P by the binary algorithm on four 64-bit
// limbs (about twenty times faster than big.Jacobi, which dominates the search otherwise).
func jacobi256(c *big.Int) int {
	a, n := toU256(c), fieldPLimbs
	t := 1
	for !a.isZero() {
		for a[0]&1 == 0 {
			k := uint(bits.TrailingZeros64(a[0]))
			if a[0] == 0 {
				k = 63
			}
			a.shr(k)
			if r := n[0] & 7; k&1 == 1 && (r == 3 || r == 5) {
				t = -t
			}
		}
		if a.less(&n) {
			a, n = n, a
			if a[0]&3 == 3 && n[0]&3 == 3 {
				t = -t
			}
		}
		a.sub(&n)
	}
	if n == (u256{1, 0, 0, 0}) {
		return t
	}
	return 0
}

// runLength is the number of increments try-and-increment needs for the message.
func (s *runScratch) runLength(msg []byte) int {
	h := sha256.Sum256(msg)
	s.x.SetBytes(h[:])
	s.x.Mod(s.x, fieldP)
	n := 0
	for !s.hasY() {
		s.x.Add(s.x, big1)
		if s.x.Cmp(fieldP) >= 0 { // cannot happen: x = P-1 gives the square 2; kept total anyway
			s.x.SetInt64(0)
		}
		n++
	}
	return n
}

// runLengthBig is runLength through math/big's Jacobi symbol only.
func (s *runScratch) runLengthBig(msg []byte) int {
	h := sha256.Sum256(msg)
	s.x.SetBytes(h[:])
	s.x.Mod(s.x, fieldP)
	n := 0
	for !s.hasYBig() {
		s.x.Add(s.x, big1)
		n++
	}
	return n
}

// runLengthOf is what the driver's cases use: math/big's Jacobi, cross-checked with the limb one.
func runLengthOf(msg []byte) int {
	s := newScratch()
	n := s.runLengthBig(msg)
	if m := s.runLength(msg); m != n {
		fmt.Fprintf(os.Stderr, "c04: jacobi256 disagrees with big.Jacobi on %q: %d vs %d\n", msg, m, n)
		os.Exit(2)
	}
	return n
}

// grind computes the run length of prefix+counter for counter in [from, from+n) on all cores
// and returns the messages with run >= minRun (sorted by counter) together with the histogram
// of all run lengths seen.
func grind(prefix string, from, n uint64, minRun int) ([]longRun, map[int]uint64) {
	workers := runtime.NumCPU()
	const chunk = 1 << 14
	var mu sync.Mutex
	next := from
	end := from + n
	type hit struct {
		ctr uint64
		run int
	}
	var hits []hit
	hist := map[int]uint64{}
	var wg sync.WaitGroup
	for w := 0; w < workers; w++ {
		wg.Add(1)
		go func() {
			defer wg.Done()
			s := newScratch()
			local := make([]uint64, 256)
			buf := make([]byte, 0, len(prefix)+20)
			for {
				mu.Lock()
				lo := next
				if lo >= end {
					mu.Unlock()
					break
				}
				hi := lo + chunk
				if hi > end {
					hi = end
				}
				next = hi
				mu.Unlock()
				var found []hit
				for c := lo; c < hi; c++ {
					buf = append(buf[:0], prefix...)
					buf = strconv.AppendUint(buf, c, 10)
					r := s.runLength(buf)
					if r >= minRun || c&4095 == 0 { // cross-check the limb arithmetic with math/big
						if rb := s.runLengthBig(buf); rb != r {
							fmt.Fprintf(os.Stderr, "c04: jacobi256 disagrees with big.Jacobi on %q: %d vs %d\n", buf, r, rb)
							os.Exit(2)
						}
					}
					if r < len(local) {
						local[r]++
					}
					if r >= minRun {
						found = append(found, hit{c, r})
					}
				}
				if len(found) > 0 {
					mu.Lock()
					hits = append(hits, found...)
					mu.Unlock()
				}
			}
			mu.Lock()
			for r, k := range local {
				if k > 0 {
					hist[r] += k
				}
			}
			mu.Unlock()
		}()
	}
	wg.Wait()
	sort.Slice(hits, func(i, j int) bool { return hits[i].ctr < hits[j].ctr })
	out := make([]longRun, len(hits))
	for i, h := range hits {
		out[i] = longRun{Msg: prefix + strconv.FormatUint(h.ctr, 10), Run: h.run}
	}
	return out, hist
}

// grindMain is the `-grind` mode: prints the hits as JSON on stdout, the histogram on stderr.
func grindMain(prefix string, from, n uint64, minRun int) {
	hits, hist := grind(prefix, from, n, minRun)
	keys := make([]int, 0, len(hist))
	for k := range hist {
		keys = append(keys, k)
	}
	sort.Ints(keys)
	for _, k := range keys {
		fmt.Fprintf(os.Stderr, "run %2d: %d\n", k, hist[k])
	}
	fmt.Println("[")
	for i, h := range hits {
		b, _ := json.Marshal(h)
		sep := ","
		if i == len(hits)-1 {
			sep = ""
		}
		fmt.Printf(" %s%s\n", b, sep)
	}
	fmt.Println("]")
}
