// Driver for C06: runs the real event.Deduplicator (relay entry part) against a scripted chain
// stub on generated notification histories and prints the cases for the Coq model
// (Model/C06.v).  Sequential histories become CSeq cases; histories with concurrent batches
// become CConc cases listed in a linearisation order found here by search (a certificate that
// Coq re-validates: real-time order respected and the sequential model replays it).
package main

import (
	"encoding/hex"
	"errors"
	"fmt"
	"math/big"
	"os"
	"runtime"
	"strings"
	"sync"
	"sync/atomic"

	"github.com/keep-network/keep-core/pkg/beacon/event"

	"verifharness/lib"
)

// ---------------------------------------------------------------- inputs

// One notification.  AnsEntry / AnsBlock are what the chain answers if asked while this
// notification is handled: hex of the bytes / decimal of the big.Int; nil = the call errs.
type opIn struct {
	Blk      uint64  `json:"blk"`
	Ent      string  `json:"ent"`
	AnsEntry *string `json:"ans_entry"`
	AnsBlock *string `json:"ans_block"`
}

// A phase is either a run of sequential notifications or one concurrent batch (every
// notification of a batch sees the same chain answers: those of its first notification).
type phase struct {
	Conc bool   `json:"conc"`
	Ops  []opIn `json:"ops"`
}

type input struct {
	Phases []phase `json:"phases"`
}

// ---------------------------------------------------------------- chain stub

type chainStub struct {
	mu    sync.Mutex
	cur   opIn
	calls int
	gate  func() // run once, by the first chain call after it was set
}

func (c *chainStub) setGate(f func()) {
	c.mu.Lock()
	c.gate = f
	c.mu.Unlock()
}

func (c *chainStub) passGate() {
	c.mu.Lock()
	g := c.gate
	c.gate = nil
	c.mu.Unlock()
	if g != nil {
		g()
	}
}

func (c *chainStub) set(o opIn) {
	c.mu.Lock()
	c.cur = o
	c.mu.Unlock()
}

func (c *chainStub) CurrentRequestStartBlock() (*big.Int, error) {
	c.passGate()
	runtime.Gosched() // the caller holds relayEntryMutex: let the other goroutines pile up
	c.mu.Lock()
	defer c.mu.Unlock()
	c.calls++
	if c.cur.AnsBlock == nil {
		return nil, errors.New("scripted chain error (start block)")
	}
	v, ok := new(big.Int).SetString(*c.cur.AnsBlock, 10)
	if !ok {
		panic("driver: bad scripted block " + *c.cur.AnsBlock)
	}
	return v, nil
}

func (c *chainStub) CurrentRequestPreviousEntry() ([]byte, error) {
	c.passGate()
	runtime.Gosched()
	c.mu.Lock()
	defer c.mu.Unlock()
	c.calls++
	if c.cur.AnsEntry == nil {
		return nil, errors.New("scripted chain error (previous entry)")
	}
	b, err := hex.DecodeString(*c.cur.AnsEntry)
	if err != nil {
		panic("driver: bad scripted entry " + *c.cur.AnsEntry)
	}
	return b, nil
}

// ---------------------------------------------------------------- running

type rec struct {
	op        opIn
	inv, resp uint64
	out       string // RTrue | RFalse | RErr | RPanic
	calls     int
	detail    string
}

func callOnce(d *event.Deduplicator, o opIn) (out, detail string) {
	defer func() {
		if r := recover(); r != nil {
			out, detail = "RPanic", fmt.Sprintf("panic: %v", r)
		}
	}()
	ok, err := d.NotifyRelayEntryStarted(o.Blk, o.Ent)
	if err != nil {
		if ok {
			return "RPanic", "true returned together with an error: " + err.Error()
		}
		return "RErr", err.Error()
	}
	if ok {
		return "RTrue", ""
	}
	return "RFalse", ""
}

func execute(in input) (recs []rec, hasConc bool) {
	stub := &chainStub{}
	d := event.NewDeduplicator(stub)
	var clock atomic.Uint64
	ms, msKnown := mstate{}, true // mirror state, known until the first concurrent batch
	for _, ph := range in.Phases {
		if !ph.Conc {
			for _, o := range ph.Ops {
				stub.set(o)
				before := stub.calls
				inv := clock.Add(1)
				out, det := callOnce(d, o)
				resp := clock.Add(1)
				recs = append(recs, rec{o, inv, resp, out, stub.calls - before, det})
				ms, _ = mirror(ms, o)
			}
			continue
		}
		if len(ph.Ops) == 0 {
			continue
		}
		hasConc = true
		stub.set(ph.Ops[0])
		ops := make([]opIn, len(ph.Ops))
		for i, o := range ph.Ops {
			o.AnsEntry, o.AnsBlock = ph.Ops[0].AnsEntry, ph.Ops[0].AnsBlock
			ops[i] = o
		}
		// Gate: the call is so short that goroutines rarely overlap by themselves.  When the
		// state before the batch is known, a notification that makes the Deduplicator consult
		// the chain (same previous entry, later block) goes first; the stub keeps it inside the
		// chain call -- i.e. inside relayEntryMutex -- until every other goroutine of the batch
		// has been invoked.  If the batch has no such notification one is added (a redelivered
		// retry of the current request).  The gate is an ordinary member of the history.
		gate := -1
		if msKnown && ms.blk != 0 {
			for i, o := range ops {
				if o.Blk > ms.blk && o.Ent == ms.ent {
					gate = i
					break
				}
			}
			if gate < 0 && ms.blk < ^uint64(0) {
				ops = append(ops, opIn{Blk: ms.blk + 1, Ent: ms.ent, AnsEntry: ops[0].AnsEntry, AnsBlock: ops[0].AnsBlock})
				gate = len(ops) - 1
			}
		}
		msKnown = false
		batch := make([]rec, len(ops))
		var ready, done sync.WaitGroup
		var start atomic.Bool // spin barrier: the calls begin as simultaneously as possible
		var stamped atomic.Int64
		worker := func(i int, o opIn, barrier bool) {
			defer done.Done()
			if barrier {
				ready.Done()
				for spins := 0; !start.Load(); spins++ {
					if spins > 1<<16 {
						runtime.Gosched()
					}
				}
			}
			inv := clock.Add(1)
			stamped.Add(1)
			out, det := callOnce(d, o)
			resp := clock.Add(1)
			batch[i].inv, batch[i].resp, batch[i].out, batch[i].detail = inv, resp, out, det
		}
		for i := range ops {
			batch[i].op = ops[i]
		}
		if gate >= 0 {
			inside := make(chan struct{})
			gateDone := make(chan struct{})
			others := int64(len(ops))
			stub.setGate(func() {
				close(inside)
				for stamped.Load() < others {
					runtime.Gosched()
				}
			})
			done.Add(1)
			go func() {
				defer close(gateDone)
				worker(gate, ops[gate], false)
			}()
			select {
			case <-inside: // the gate call sits in the chain stub, holding relayEntryMutex
			case <-gateDone: // it never consulted the chain (the code deviates from the mirror)
			}
		}
		for i := range ops {
			if i == gate {
				continue
			}
			ready.Add(1)
			done.Add(1)
			go worker(i, ops[i], true)
		}
		ready.Wait()
		start.Store(true)
		done.Wait()
		stub.setGate(nil)
		recs = append(recs, batch...)
	}
	return recs, hasConc
}

// ---------------------------------------------------------------- linearisation search
// A Go mirror of the sequential model, used ONLY to find the certificate order; Coq validates it.

type mstate struct {
	blk uint64
	ent string
}

func mirror(s mstate, o opIn) (mstate, string) {
	upd := func() string {
		if s.blk == 0 {
			return "RTrue"
		}
		if o.Blk > s.blk {
			if o.Ent == s.ent {
				if o.AnsEntry == nil || o.AnsBlock == nil {
					return "RErr"
				}
				cb, _ := new(big.Int).SetString(*o.AnsBlock, 10)
				if o.Ent == strings.ToLower(*o.AnsEntry) && o.Blk == cb.Uint64() {
					return "RTrue"
				}
				return "RFalse"
			}
			return "RTrue"
		}
		return "RFalse"
	}()
	if upd == "RTrue" {
		return mstate{o.Blk, o.Ent}, upd
	}
	return s, upd
}

// linearise returns the records in an order that respects real time and that the mirror
// replays; ok=false (and invocation order) when there is none.
func linearise(recs []rec) ([]rec, bool) {
	n := len(recs)
	placed := make([]bool, n)
	order := make([]int, 0, n)
	budget := 2000000
	var dfs func(s mstate) bool
	dfs = func(s mstate) bool {
		if len(order) == n {
			return true
		}
		budget--
		if budget < 0 {
			return false
		}
		for i := 0; i < n; i++ {
			if placed[i] {
				continue
			}
			minimal := true
			for j := 0; j < n; j++ {
				if j != i && !placed[j] && recs[j].resp < recs[i].inv {
					minimal = false
					break
				}
			}
			if !minimal {
				continue
			}
			s2, out := mirror(s, recs[i].op)
			if out != recs[i].out {
				continue
			}
			placed[i] = true
			order = append(order, i)
			if dfs(s2) {
				return true
			}
			order = order[:len(order)-1]
			placed[i] = false
		}
		return false
	}
	if dfs(mstate{}) {
		out := make([]rec, n)
		for k, i := range order {
			out[k] = recs[i]
		}
		return out, true
	}
	// no certificate: invocation order
	out := append([]rec{}, recs...)
	for i := 1; i < len(out); i++ {
		for j := i; j > 0 && out[j].inv < out[j-1].inv; j-- {
			out[j], out[j-1] = out[j-1], out[j]
		}
	}
	return out, false
}

// ---------------------------------------------------------------- rendering

func coqOp(o opIn) string {
	ae, ab := "None", "None"
	if o.AnsEntry != nil {
		b, _ := hex.DecodeString(*o.AnsEntry)
		ae = lib.Some(lib.Bytes(b))
	}
	if o.AnsBlock != nil {
		v, _ := new(big.Int).SetString(*o.AnsBlock, 10)
		ab = lib.Some(lib.ZBig(v))
	}
	return fmt.Sprintf("{| blk := %s; ent := %s; ans := {| ans_entry := %s; ans_block := %s |} |}",
		lib.ZU(o.Blk), lib.Bytes([]byte(o.Ent)), ae, ab)
}

func overlapping(recs []rec) bool {
	for i := range recs {
		for j := 0; j < i; j++ {
			if recs[j].inv < recs[i].resp && recs[i].inv < recs[j].resp {
				return true
			}
		}
	}
	return false
}

func run(in input, em *lib.Emitter, id string) {
	recs, hasConc := execute(in)
	// the scheduler decides whether calls of a batch really overlap; re-execute (fresh
	// Deduplicator) a few times to obtain an execution in which they do
	for try := 0; hasConc && try < 6 && !overlapping(recs); try++ {
		recs, hasConc = execute(in)
	}
	type obs struct {
		Blk   uint64 `json:"blk"`
		Ent   string `json:"ent"`
		Out   string `json:"out"`
		Calls int    `json:"chain_calls,omitempty"`
		Inv   uint64 `json:"inv,omitempty"`
		Resp  uint64 `json:"resp,omitempty"`
		Det   string `json:"detail,omitempty"`
	}
	nTrue, nFalse, nErr, consulted, zero := 0, 0, 0, 0, false
	for _, r := range recs {
		switch r.out {
		case "RTrue":
			nTrue++
		case "RFalse":
			nFalse++
		case "RErr":
			nErr++
		}
		if r.calls > 0 {
			consulted++
		}
		if r.op.Blk == 0 {
			zero = true
		}
	}
	var coq string
	var out []obs
	sig := map[string]interface{}{"zero_block": zero}
	nontrivial := false
	if !hasConc {
		ops, outs, calls := []string{}, []string{}, []uint64{}
		for _, r := range recs {
			ops = append(ops, coqOp(r.op))
			outs = append(outs, r.out)
			calls = append(calls, uint64(r.calls))
			out = append(out, obs{Blk: r.op.Blk, Ent: r.op.Ent, Out: r.out, Calls: r.calls, Det: r.detail})
		}
		coq = fmt.Sprintf("(CSeq {| q_ops := %s; q_outs := %s; q_calls := %s |})",
			lib.List(ops), lib.List(outs), lib.ListN(calls))
		sig["variant"] = "seq"
		nontrivial = nTrue >= 2 && nFalse >= 1 && consulted >= 1
		em.Tally(fmt.Sprintf("seq-len-%02d", len(recs)/5*5))
	} else {
		lin, ok := linearise(recs)
		cops := []string{}
		overlap := false
		for i, r := range lin {
			cops = append(cops, fmt.Sprintf("{| c_op := %s; c_inv := %s; c_resp := %s; c_out := %s |}",
				coqOp(r.op), lib.N(r.inv), lib.N(r.resp), r.out))
			out = append(out, obs{Blk: r.op.Blk, Ent: r.op.Ent, Out: r.out, Inv: r.inv, Resp: r.resp, Det: r.detail})
			for j := 0; j < i; j++ {
				if lin[j].inv < r.resp && r.inv < lin[j].resp {
					overlap = true
				}
			}
		}
		coq = fmt.Sprintf("(CConc {| cc_ops := %s |})", lib.List(cops))
		sig["variant"] = "conc"
		sig["linearisation_found"] = ok
		nontrivial = overlap && nTrue >= 1 && nFalse+nErr >= 1
		if overlap {
			em.Tally("conc-with-overlapping-calls")
		} else {
			em.Tally("conc-no-overlap-observed")
		}
		if !ok {
			em.Tally("conc-no-linearisation")
		}
	}
	em.Tally(fmt.Sprintf("answers-true-%d", min(nTrue, 5)))
	if nErr > 0 {
		em.Tally("with-chain-error")
	}
	if consulted > 0 {
		em.Tally("chain-consulted")
	}
	if zero {
		em.Tally("with-zero-start-block")
	}
	em.Case(lib.Case{ID: id, Coq: coq, Key: keyOf(in), Nontrivial: nontrivial, Sig: sig, In: in, Out: out})
}

func min(a, b int) int {
	if a < b {
		return a
	}
	return b
}

func keyOf(in input) string {
	var sb strings.Builder
	for _, ph := range in.Phases {
		if ph.Conc {
			sb.WriteString("{")
		}
		for _, o := range ph.Ops {
			ae, ab := "!", "!"
			if o.AnsEntry != nil {
				ae = *o.AnsEntry
			}
			if o.AnsBlock != nil {
				ab = *o.AnsBlock
			}
			fmt.Fprintf(&sb, "%d,%s,%s,%s;", o.Blk, o.Ent, ae, ab)
		}
		if ph.Conc {
			sb.WriteString("}")
		}
	}
	return sb.String()
}

// ---------------------------------------------------------------- generators

func sp(s string) *string { return &s }
func blockStr(b uint64) *string {
	return sp(new(big.Int).SetUint64(b).String())
}

// mk builds a notification whose chain answers are (ansEntry bytes, ansBlock); errE/errB make
// the respective call fail.
func mk(blk uint64, entry []byte, ansEntry []byte, ansBlock uint64, errE, errB bool) opIn {
	o := opIn{Blk: blk, Ent: hex.EncodeToString(entry)}
	if !errE {
		o.AnsEntry = sp(hex.EncodeToString(ansEntry))
	}
	if !errB {
		o.AnsBlock = blockStr(ansBlock)
	}
	return o
}

func seq(ops ...opIn) input { return input{[]phase{{false, ops}}} }

// A simulated beacon chain: the current request (start block, previous entry) evolves by new
// requests, retries of a timed-out request (same previous entry, later block) and small
// reorganisations (the same request re-mined in another block); the node receives the events,
// duplicates and stale redeliveries of older ones, and asks the chain, which answers with its
// current view (sometimes lagging, sometimes failing).
func simulated(r *lib.Rng, n int) []opIn {
	type req struct {
		blk uint64
		ent []byte
	}
	elen := []int{1, 2, 4, 32}[r.Intn(4)]
	var base uint64
	switch r.Intn(5) {
	case 0:
		base = 1
	case 1:
		base = uint64(r.Range(1, 50))
	case 2:
		base = 1<<32 - 3
	case 3:
		base = 1<<63 - 5
	default:
		base = uint64(r.Range(1000, 20000000))
	}
	cur := req{base, r.Bytes(elen)}
	hist := []req{cur}
	prevView := cur
	var ops []opIn
	for len(ops) < n {
		var ev req
		switch k := r.Intn(10); {
		case k < 3: // a new request: new previous entry (the last relay entry), later block
			prevView = cur
			cur = req{cur.blk + uint64(r.Range(1, 40)), r.Bytes(elen)}
			hist = append(hist, cur)
			ev = cur
		case k < 5: // retry of the timed-out request: same previous entry, later block
			prevView = cur
			cur = req{cur.blk + uint64(r.Range(1, 40)), cur.ent}
			hist = append(hist, cur)
			ev = cur
		case k < 6: // small reorg: the current request re-mined a little later or earlier
			prevView = cur
			nb := cur.blk + uint64(r.Range(1, 3))
			if r.Bool() && cur.blk > 3 {
				nb = cur.blk - uint64(r.Range(1, 2))
			}
			cur = req{nb, cur.ent}
			hist = append(hist, cur)
			ev = cur
		case k < 8: // duplicate delivery of the current event
			ev = cur
		default: // stale redelivery of an older event
			ev = hist[r.Intn(len(hist))]
		}
		view := cur
		if r.Chance(1, 6) {
			view = prevView // the chain client lags behind
		}
		if r.Chance(1, 12) {
			view = req{ev.blk + uint64(r.Range(0, 2)), hist[r.Intn(len(hist))].ent}
		}
		o := mk(ev.blk, ev.ent, view.ent, view.blk, r.Chance(1, 15), r.Chance(1, 15))
		ops = append(ops, o)
	}
	return ops
}

// unstructured: small alphabets so that coincidences are frequent; includes malformed strings
// and (rarely) the start block 0.
func unstructured(r *lib.Rng, n int) []opIn {
	pool := [][]byte{{0xab}, {0xcd}, {0x01, 0x02}, {}}
	var ops []opIn
	hi := uint64(r.Range(3, 12))
	off := uint64(0)
	if r.Chance(1, 4) {
		off = ^uint64(0) - hi // start blocks up to 2^64-1
	}
	zeroOK := r.Chance(1, 8)
	for len(ops) < n {
		b := off + uint64(r.Range(1, int(hi)))
		if zeroOK && r.Chance(1, 6) {
			b = 0
		}
		e := pool[r.Intn(len(pool))]
		ae := pool[r.Intn(len(pool))]
		if r.Chance(2, 3) {
			ae = e
		}
		ab := off + uint64(r.Range(1, int(hi)))
		if r.Chance(2, 3) {
			ab = b
		}
		o := mk(b, e, ae, ab, r.Chance(1, 10), r.Chance(1, 10))
		switch r.Intn(12) {
		case 0:
			o.Ent = strings.ToUpper(o.Ent) // not what hex.EncodeToString produces
		case 1:
			o.Ent = "0x" + o.Ent
		}
		ops = append(ops, o)
	}
	return ops
}

func main() {
	o := lib.ParseOpts()
	em := lib.NewEmitter()
	if o.Replay != "" {
		var in input
		if err := lib.LoadReplay(o.Replay, &in); err != nil {
			fmt.Fprintln(os.Stderr, err)
			os.Exit(2)
		}
		run(in, em, "replay")
		em.Close("replay", nil)
		return
	}
	rng := lib.NewRng(o.Seed)
	A, B, C := []byte{0xaa, 0x01}, []byte{0xbb, 0x02}, []byte{0xcc, 0x03}

	// --- corpus: minimised regression cases (run first)
	{
		// the sequences of pkg/beacon/event/deduplicator_test.go, and their neighbours
		run(seq(mk(100, A, A, 100, false, false)), em, "corpus-first")
		run(seq(mk(100, A, A, 100, false, false), mk(100, A, A, 100, false, false)), em, "corpus-duplicate")
		run(seq(mk(100, A, A, 100, false, false), mk(99, B, B, 99, false, false)), em, "corpus-stale-older-block")
		run(seq(mk(100, A, A, 100, false, false), mk(101, B, A, 100, true, true)), em, "corpus-new-entry-chain-down")
		run(seq(mk(100, A, A, 100, false, false), mk(105, A, A, 105, false, false), mk(105, A, A, 105, false, false)), em, "corpus-retry-confirmed-then-duplicate")
		run(seq(mk(100, A, A, 100, false, false), mk(102, A, A, 100, false, false)), em, "corpus-reorg-not-confirmed-block")
		run(seq(mk(100, A, A, 100, false, false), mk(102, A, B, 102, false, false)), em, "corpus-reorg-not-confirmed-entry")
		run(seq(mk(100, A, A, 100, false, false), mk(102, A, A, 102, true, false), mk(102, A, A, 102, false, true),
			mk(102, A, A, 102, false, false)), em, "corpus-chain-errors-then-confirmed")
		run(seq(mk(100, A, A, 100, false, false), mk(200, B, B, 200, false, false), mk(150, C, C, 150, false, false),
			mk(100, A, A, 100, false, false), mk(201, B, B, 201, false, false)), em, "corpus-out-of-order")
		run(seq(mk(0, A, A, 0, false, false), mk(0, A, A, 0, false, false), mk(5, B, B, 5, false, false),
			mk(5, B, B, 5, false, false)), em, "corpus-zero-start-block")
		up := mk(7, A, A, 7, false, false)
		up2 := up
		up2.Blk, up2.AnsBlock = 9, blockStr(9)
		up.Ent, up2.Ent = strings.ToUpper(up.Ent), strings.ToUpper(up2.Ent)
		run(seq(up, up2), em, "corpus-uppercase-entry-never-confirmed")
		run(seq(mk(^uint64(0)-1, A, A, 1, false, false), mk(^uint64(0), A, A, ^uint64(0), false, false),
			mk(1, B, B, 1, false, false)), em, "corpus-max-uint64")
		run(input{[]phase{{false, []opIn{mk(10, A, A, 10, false, false)}},
			{true, []opIn{mk(12, B, A, 12, false, false), mk(12, B, A, 12, false, false), mk(11, C, A, 12, false, false),
				mk(12, A, A, 12, false, false)}}}}, em, "corpus-concurrent-duplicates")
	}

	// --- exhaustive small scope: every history of length <= 2 (quick: a sample of length 3,
	// thorough: all) over blocks {1,2,3}, entries {A,B} and chain answers
	// {confirms this notification, other block, entry call fails, block call fails}
	var alphabet []opIn
	for b := uint64(1); b <= 3; b++ {
		for _, e := range [][]byte{A, B} {
			alphabet = append(alphabet, mk(b, e, e, b, false, false), mk(b, e, e, b+1, false, false),
				mk(b, e, e, b, true, false), mk(b, e, e, b, false, true))
		}
	}
	na := len(alphabet)
	for i := 0; i < na; i++ {
		for j := 0; j < na; j++ {
			run(seq(alphabet[i], alphabet[j]), em, fmt.Sprintf("small2-%d-%d", i, j))
		}
	}
	{
		r := rng.Fork("small3")
		total := na * na * na
		n3 := o.Count(400, total)
		if n3 >= total {
			for x := 0; x < total; x++ {
				run(seq(alphabet[x/(na*na)], alphabet[x/na%na], alphabet[x%na]), em, fmt.Sprintf("small3-%d", x))
			}
		} else {
			for k := 0; k < n3; k++ {
				x := r.Intn(total)
				run(seq(alphabet[x/(na*na)], alphabet[x/na%na], alphabet[x%na]), em, fmt.Sprintf("small3-%d", x))
			}
		}
	}

	// --- random sequential histories of 1..40 notifications
	nSeq := o.Count(400, 6000)
	for i := 0; i < nSeq; i++ {
		r := rng.Fork(fmt.Sprintf("seq%d", i))
		n := r.Range(1, 40)
		if r.Chance(2, 3) {
			run(seq(simulated(r, n)...), em, fmt.Sprintf("sim-%d", i))
		} else {
			run(seq(unstructured(r, n)...), em, fmt.Sprintf("rnd-%d", i))
		}
	}

	// --- concurrent deliveries: sequential prefix, batch of 2..8 goroutines, optional tail
	// and second batch
	nConc := o.Count(150, 2000)
	for i := 0; i < nConc; i++ {
		r := rng.Fork(fmt.Sprintf("conc%d", i))
		var phases []phase
		src := unstructured
		if r.Bool() {
			src = simulated
		}
		all := src(r, r.Range(2, 8)+r.Range(0, 6)+r.Range(0, 8))
		take := func(k int) []opIn {
			if k > len(all) {
				k = len(all)
			}
			p := all[:k]
			all = all[k:]
			return p
		}
		phases = append(phases, phase{false, take(r.Range(0, 6))})
		b1 := take(r.Range(2, 8))
		if r.Chance(1, 3) && len(b1) >= 2 { // the same event delivered to several goroutines
			for j := 1; j < len(b1); j++ {
				if r.Bool() {
					b1[j] = b1[0]
				}
			}
		}
		phases = append(phases, phase{true, b1})
		if len(all) > 0 {
			phases = append(phases, phase{false, take(r.Range(1, 3))})
		}
		if len(all) >= 2 {
			phases = append(phases, phase{true, all})
		}
		run(input{phases}, em, fmt.Sprintf("conc-%d", i))
	}

	em.Close("a case is one history of NotifyRelayEntryStarted calls on a fresh Deduplicator with a scripted chain "+
		"(sequential, or with concurrent batches of 2..8 goroutines); distinct by the full list of "+
		"(start block, entry string, chain answers) and the phase structure; a sequential case is non-trivial when "+
		"at least two notifications were answered true, one false, and the chain was consulted at least once; "+
		"a concurrent case when calls really overlapped in time and both true and non-true answers occurred", nil)
}
