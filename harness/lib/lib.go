// Package lib holds what every driver shares: the PRNG all random choices derive from, the
// JSONL emitter and helpers that render Coq terms.
package lib

import (
	"bufio"
	"encoding/json"
	"flag"
	"fmt"
	"math/big"
	"os"
	"sort"
	"strings"
)

// ---------------------------------------------------------------- PRNG (splitmix64)

type Rng struct{ s uint64 }

func NewRng(seed uint64) *Rng { return &Rng{s: seed} }
func (r *Rng) U64() uint64 {
	r.s += 0x9E3779B97F4A7C15
	z := r.s
	z = (z ^ (z >> 30)) * 0xBF58476D1CE4E5B9
	z = (z ^ (z >> 27)) * 0x94D049BB133111EB
	return z ^ (z >> 31)
}
func (r *Rng) Intn(n int) int {
	if n <= 0 {
		return 0
	}
	return int(r.U64() % uint64(n))
}
func (r *Rng) Range(lo, hi int) int { return lo + r.Intn(hi-lo+1) } // inclusive
func (r *Rng) Bool() bool           { return r.U64()&1 == 1 }
func (r *Rng) Chance(num, den int) bool {
	return r.Intn(den) < num
}
func (r *Rng) I64() int64 { return int64(r.U64()) }
func (r *Rng) Bytes(n int) []byte {
	b := make([]byte, n)
	for i := range b {
		b[i] = byte(r.U64())
	}
	return b
}
func (r *Rng) Perm(n int) []int {
	p := make([]int, n)
	for i := range p {
		p[i] = i
	}
	for i := n - 1; i > 0; i-- {
		j := r.Intn(i + 1)
		p[i], p[j] = p[j], p[i]
	}
	return p
}

// Fork derives an independent stream (so that adding draws in one place does not shift others).
func (r *Rng) Fork(label string) *Rng {
	h := r.U64()
	for _, c := range []byte(label) {
		h = (h ^ uint64(c)) * 0x100000001b3
	}
	return NewRng(h)
}

// ---------------------------------------------------------------- options

type Opts struct {
	Tier   string // quick | thorough | search
	Seed   uint64
	Replay string
	N      int // case-count override (0 = tier default)
}

func ParseOpts() Opts {
	var o Opts
	flag.StringVar(&o.Tier, "tier", "quick", "quick|thorough|search")
	flag.Uint64Var(&o.Seed, "seed", 1, "VERIF_SEED")
	flag.StringVar(&o.Replay, "replay", "", "replay file")
	flag.IntVar(&o.N, "n", 0, "case count override")
	flag.Parse()
	return o
}

// Count picks the case count for the tier.
func (o Opts) Count(quick, thorough int) int {
	if o.N > 0 {
		return o.N
	}
	switch o.Tier {
	case "thorough":
		return thorough
	case "search":
		return thorough
	}
	return quick
}

// ---------------------------------------------------------------- emitter

type Case struct {
	Kind       string                 `json:"kind"` // "case"
	ID         string                 `json:"id"`
	Coq        string                 `json:"coq"`        // Coq term of the property's case type
	Key        string                 `json:"key"`        // distinctness key
	Nontrivial bool                   `json:"nontrivial"` // by the driver's stated rule
	Sig        map[string]interface{} `json:"sig"`        // structural signature, matched against known findings
	In         interface{}            `json:"in"`         // the Go-side input, enough for --replay
	Out        interface{}            `json:"out"`        // canonicalised implementation observable
}

type Emitter struct {
	w    *bufio.Writer
	n    int
	dist map[string]int
}

func NewEmitter() *Emitter {
	return &Emitter{w: bufio.NewWriterSize(os.Stdout, 1<<20), dist: map[string]int{}}
}
func (e *Emitter) Case(c Case) {
	c.Kind = "case"
	if c.ID == "" {
		c.ID = fmt.Sprintf("c%05d", e.n)
	}
	if c.Sig == nil {
		c.Sig = map[string]interface{}{}
	}
	e.n++
	b, err := json.Marshal(c)
	if err != nil {
		panic(err)
	}
	e.w.Write(b)
	e.w.WriteByte('\n')
}

// Tally counts a feature of the generated input distribution (sizes, op kinds, error kinds).
func (e *Emitter) Tally(label string) { e.dist[label]++ }

// Close prints the meta record: the non-triviality rule and the measured distribution.
func (e *Emitter) Close(rule string, extra map[string]interface{}) {
	m := map[string]interface{}{"kind": "meta", "rule": rule, "dist": e.dist}
	for k, v := range extra {
		m[k] = v
	}
	b, _ := json.Marshal(m)
	e.w.Write(b)
	e.w.WriteByte('\n')
	e.w.Flush()
}

// ---------------------------------------------------------------- replay files

// LoadReplay reads the "in" field of a replay file into v.
func LoadReplay(path string, v interface{}) error {
	b, err := os.ReadFile(path)
	if err != nil {
		return err
	}
	var f struct {
		In json.RawMessage `json:"in"`
	}
	if err := json.Unmarshal(b, &f); err != nil {
		return err
	}
	return json.Unmarshal(f.In, v)
}

// ---------------------------------------------------------------- Coq term rendering

func N(v uint64) string      { return fmt.Sprintf("%d%%N", v) }
func Nat(v int) string       { return fmt.Sprintf("%d%%nat", v) }
func Z(v int64) string       { return fmt.Sprintf("(%d)%%Z", v) }
func ZBig(v *big.Int) string { return fmt.Sprintf("(%s)%%Z", v.String()) }
func ZU(v uint64) string     { return fmt.Sprintf("(%d)%%Z", v) }
func Bool(b bool) string {
	if b {
		return "true"
	}
	return "false"
}
func List(items []string) string { return "[" + strings.Join(items, "; ") + "]" }
func ListN(vs []uint64) string {
	s := make([]string, len(vs))
	for i, v := range vs {
		s[i] = N(v)
	}
	return List(s)
}
func ListZ(vs []int64) string {
	s := make([]string, len(vs))
	for i, v := range vs {
		s[i] = Z(v)
	}
	return List(s)
}
func Some(s string) string    { return "(Some " + s + ")" }
func Pair(a, b string) string { return "(" + a + ", " + b + ")" }

// Bytes renders a byte string as a list of N (one N per byte).
func Bytes(b []byte) string {
	s := make([]string, len(b))
	for i, v := range b {
		s[i] = fmt.Sprintf("%d", v)
	}
	return "[" + strings.Join(s, "; ") + "]%N"
}

// Rank assigns to each distinct string its rank in sorted order (order-preserving
// canonicalisation, 1-based so that 0 stays free for "none").
func Rank(vals []string) map[string]uint64 {
	u := map[string]bool{}
	for _, v := range vals {
		u[v] = true
	}
	keys := make([]string, 0, len(u))
	for k := range u {
		keys = append(keys, k)
	}
	sort.Strings(keys)
	m := map[string]uint64{}
	for i, k := range keys {
		m[k] = uint64(i + 1)
	}
	return m
}

// SilenceLogs turns off ipfs go-log output (the code under test logs a lot).
func SilenceLogs() {
	os.Setenv("GOLOG_LOG_LEVEL", "fatal")
}
